"""C20 - packaged dataset preprocessors and models agree with each other (structural part)."""
from __future__ import annotations

import ast
import re
import os
from typing import Any, Dict, List, Optional, Tuple

from fjsa.flow import bound_args, FuncFlow, call_args, guards_of, same, txt
from fjsa.model import FuncInfo
from fjsa.report import Check
from fjsa.rules.constfold import ConstFolder, UNKNOWN, Unknown

DS = 'fedjax.datasets'
MD = 'fedjax.models'


def run(check: Check):
  repo = check.repo
  check.rule('R-CONST', 'the padding / begin / end / out-of-vocabulary ids and the vocabulary size are folded from source on '
             'the dataset side and on the model side (at default arguments) and must be equal; metric and loss '
             'configuration uses those named constants only')
  check.rule('R-SIB.tf', 'the standard-deviation floor of the CIFAR-100 TFF standardisation is compared with the one in the '
             'installed TensorFlow source (per_image_standardization: rsqrt(num_pixels))')
  check.rule('R-TASK', 'tasks.get_task passes the same only_digits value to the EMNIST dataset and model of each task')
  check.rule('R-ROW', 'packaged models contain no batch normalisation and their train_loss reduces over the last axis only '
             '(each example is scored independently of the other rows)')
  check.rule('R-OFFSET', 'centre crop offsets are (32 - crop) // 2; EMNIST writer-id slices are consistent with the two '
             'documented client-id formats')
  check.rule('R-AXIS.flip', 'the random horizontal flip of the CIFAR-100 TFF preprocessing reverses the axis that the crop_width slice '
             'cuts (two sites that must agree: the 4-index crop and the flip); a flip along any other axis mirrors rows or '
             'batch order instead of columns')
  check.undecided('losslessness of the Shakespeare tokenizer on all snippet lists; numeric agreement with TensorFlow on '
                  'images; that random crops are sub-windows (value-level statements)')
  cf = ConstFolder(repo)
  _shakespeare(check, cf)
  _stackoverflow(check, cf)
  _metric_config(check)
  _cifar(check)
  _cifar_flip(check)
  _tasks(check)
  _row_independence(check)
  _emnist(check, cf)



def wmean_repo_fn(ff, c):
  from fjsa.rules import wmean
  return wmean.repo_fn(ff, c)


def model_roles(repo, md: FuncInfo):
  """Names playing the roles pad / bos / eos / oov / full vocabulary size inside a language-model builder,
  recovered from how they are *used* (metric keyword arguments, loss mask, embedding size), not from their spelling.
  Returns (roles: role -> Name node, problems: list of str)."""
  ff = FuncFlow.of(repo, md)
  problems = []
  firsts, seconds, oovs, eoss = [], [], [], []
  for _, c in ff.calls():
    if isinstance(c.func, ast.Attribute) and txt(c.func.value) == 'metrics' and c.func.attr.startswith('Sequence'):
      from fjsa.flow import bound_args
      for arg, value in bound_args(ff, c).items():
        ev_ = ff.expand1(value)
        value = ev_ if isinstance(ev_, ast.Tuple) else value   # a tuple shared through a local name
        if arg == 'masked_target_values' and isinstance(value, ast.Tuple) and value.elts:
          firsts.append(value.elts[0])
          if len(value.elts) > 1:
            seconds.append(value.elts[1])
        if arg == 'oov_target_values' and isinstance(value, ast.Tuple) and value.elts:
          oovs.append(value.elts[0])
        if arg == 'eos_target_value':
          eoss.append(value)
  def common(nodes, what):
    names = [n.id for n in nodes if isinstance(n, ast.Name)]
    if len(names) != len(nodes):
      problems.append(f'{what}: a literal is used instead of the named id')
    if not names:
      return None
    top = max(set(names), key=names.count)
    if any(n != top for n in names):
      problems.append(f'{what}: inconsistent ids {sorted(set(names))}')
    return next(n for n in nodes if isinstance(n, ast.Name) and n.id == top)
  roles = {}
  roles['pad'] = common(firsts, 'padding id in masked_target_values')
  roles['oov'] = common(oovs, 'oov id')
  roles['eos'] = common(eoss + seconds, 'eos id')
  # the logits-mask loop: for i in (a, b, c, d): mask[i] = -inf
  for n in ff.cfg.nodes:
    if n.kind == 'for' and isinstance(n.ast.iter, ast.Tuple) and all(isinstance(e, ast.Name) for e in n.ast.iter.elts):
      known = {v.id for v in roles.values() if v is not None}
      rest = [e for e in n.ast.iter.elts if e.id not in known]
      if len(rest) == 1:
        roles['bos'] = rest[0]
      roles['_mask_loop'] = n.ast
  # full vocabulary size: first argument of hk.Embed in forward_pass
  try:
    fp = md.nested('forward_pass')
    for x in ast.walk(fp.node):
      if isinstance(x, ast.Call) and txt(x.func) == 'hk.Embed' and x.args and isinstance(x.args[0], ast.Name):
        roles['full_vocab_size'] = x.args[0]
  except Exception:  # pylint: disable=broad-except
    pass
  return roles, problems


def _role_value(cf: ConstFolder, md: FuncInfo, roles, role: str, overrides=None):
  n = roles.get(role)
  if n is None:
    return UNKNOWN
  return cf.eval(md.scope, ast.Name(id=n.id, ctx=ast.Load()), dict(overrides or {}))


def _cmp(check: Check, where, name: str, a, b, what_a: str, what_b: str):
  known = not isinstance(a, Unknown) and not isinstance(b, Unknown)
  if not known:
    check.inconclusive('R-CONST', where, name, f'cannot fold {what_a}={a!r} or {what_b}={b!r}')
    return
  check.ob('R-CONST', where, f'{name}: {what_a}={a!r} vs {what_b}={b!r}', a == b,
           f'the model assumes {name} = {b!r} but the packaged dataset produces {a!r}' if a != b else 'equal')


def _shakespeare(check: Check, cf: ConstFolder):
  repo = check.repo
  ds = repo.module(f'{DS}.shakespeare')
  md = repo.func(f'{MD}.shakespeare', 'create_lstm_model')
  check.analysed(md)
  dsc = {}
  for n in ('PAD', 'BOS', 'EOS', 'OOV', 'VOCAB_SIZE'):
    dsc[n] = cf.eval(ds.scope, ast.Name(id=n, ctx=ast.Load()))
  roles, problems = model_roles(repo, md)
  pairs = [('PAD', 'pad'), ('BOS', 'bos'), ('EOS', 'eos'), ('OOV', 'oov'), ('VOCAB_SIZE', 'full_vocab_size')]
  for d, m in pairs:
    _cmp(check, md, f'shakespeare {d}', dsc[d], _role_value(cf, md, roles, m), f'datasets.shakespeare.{d}', f'models.shakespeare {m} id')
  # the task wires dataset and model together: with the arguments get_task passes, the ids must still agree
  gt = repo.func('fedjax.training.tasks', 'get_task')
  for x in ast.walk(gt.node):
    if isinstance(x, ast.Call) and txt(x.func) == 'models.shakespeare.create_lstm_model':
      ov = {}
      for p_, a in zip(md.positional_params, x.args):
        ov[p_] = cf.eval(gt.scope, a)
      for k in x.keywords:
        if k.arg:
          ov[k.arg] = cf.eval(gt.scope, k.value)
      if not ov:
        check.ob('R-CONST.task', gt, txt(x), True, 'the task uses the model defaults (compared above)', nontrivial=False)
        continue
      bad = []
      for d, m_ in pairs:
        mv = _role_value(cf, md, roles, m_, ov)
        if isinstance(mv, Unknown) or isinstance(dsc[d], Unknown) or mv != dsc[d]:
          bad.append(f'{d}: dataset {dsc[d]!r} vs model {mv!r}')
      check.ob('R-CONST.task', gt, txt(x)[:90], not bad,
               'with the arguments the task passes, the model\'s special ids / vocabulary size must equal the dataset\'s' +
               (': ' + '; '.join(bad) if bad else ''), node=x)
  # the look-up table only emits labels inside the vocabulary: default label = OOV
  blt = repo.func(f'{DS}.shakespeare', '_build_look_up_table')
  tcall = None
  for st in ds.tree.body:
    if isinstance(st, ast.Assign) and isinstance(st.value, ast.Call) and txt(st.value.func) == '_build_look_up_table':
      tcall = st.value
  if tcall is not None:
    args = {}
    for p_, a in zip(blt.positional_params, tcall.args):
      args[p_] = cf.eval(ds.scope, a)
    for k in tcall.keywords:
      args[k.arg] = cf.eval(ds.scope, k.value)
    env = dict(args)
    for st in blt.node.body:
      if isinstance(st, ast.Assign) and isinstance(st.targets[0], ast.Name):
        env[st.targets[0].id] = cf.eval(blt.scope, st.value, env)
    fills = [x for x in ast.walk(blt.node) if isinstance(x, ast.Call) and txt(x.func) in ('np.full', 'numpy.full') and len(x.args) >= 2]
    for f_ in fills:
      fv = cf.eval(blt.scope, f_.args[1], env)
      ok = not isinstance(fv, Unknown) and fv == dsc['OOV'] and fv < dsc['VOCAB_SIZE']
      check.ob('R-CONST.table', blt, txt(f_)[:70], ok,
               f'bytes outside the vocabulary map to label {fv!r}; it must be the OOV label {dsc["OOV"]!r}, inside the vocabulary '
               f'of size {dsc["VOCAB_SIZE"]!r}', node=f_)
    # in-vocabulary labels start after the reserved ids
    stores = [x for x in ast.walk(blt.node) if isinstance(x, ast.Assign) and isinstance(x.targets[0], ast.Subscript) and txt(x.targets[0].value) == txt(
        fills[0].func.value if False else 'table')]
    lab_ok = any(isinstance(x.value, ast.BinOp) and isinstance(x.value.op, ast.Add) and 'num_reserved' in txt(x.value) for x in ast.walk(blt.node)
                 if isinstance(x, ast.Assign) and isinstance(x.targets[0], ast.Subscript))
    check.ob('R-CONST.table', blt, 'table[c] = num_reserved + i', lab_ok, 'vocabulary bytes get labels after the reserved PAD/BOS/EOS ids')
  # preprocess_client uses the named constants
  pc = repo.func(f'{DS}.shakespeare', 'preprocess_client')
  names = {x.id for x in ast.walk(pc.node) if isinstance(x, ast.Name)}
  check.ob('R-CONST.use', pc, 'BOS / EOS / PAD / TABLE', {'BOS', 'EOS', 'PAD', 'TABLE'} <= names,
           'the tokenizer emits the module constants (no stray literals)', nontrivial=False)
  # every snippet contributes its BOS, characters and EOS: the loop that writes them visits every snippet (no continue / break / filter)
  # and advances the write offset unconditionally - the total length was computed over all snippets, so a skipped one leaves a hole
  pff = FuncFlow.of(repo, pc)
  for n in pff.cfg.nodes:
    if n.kind != 'for':
      continue
    loop = n.ast
    stores = [x for x in ast.walk(loop) if isinstance(x, ast.Assign) and isinstance(x.targets[0], ast.Subscript)]
    if not stores:
      continue
    jumps = [x for x in ast.walk(loop) if isinstance(x, (ast.Continue, ast.Break))]
    cond_stores = [x for x in stores if not any(x is st for st in loop.body)]
    adv = [x for x in loop.body if isinstance(x, ast.AugAssign) and isinstance(x.op, ast.Add)]
    ok_every = not jumps and not cond_stores and bool(adv)
    check.ob('R-STREAM.every', pc, f'for {txt(loop.target)} in {txt(loop.iter)[:30]}', ok_every if (ok_every or jumps or cond_stores) else None,
             'every snippet is written (begin, characters, end) and the offset advances in every iteration'
             if ok_every else f'some snippets are skipped or written conditionally ({len(jumps)} continue/break, {len(cond_stores)} conditional '
             'stores): the label stream loses their begin / end markers while the total length still counts them', node=loop)
  for _, c in pff.calls():
    if pff.ext(c.func) == 'builtins.sum' and c.args and isinstance(c.args[0], (ast.GeneratorExp, ast.ListComp)):
      g = c.args[0]
      check.ob('R-STREAM.every', pc, txt(c)[:60], not any(gg.ifs for gg in g.generators),
               'the total length counts every snippet', node=c)


def _stackoverflow(check: Check, cf: ConstFolder):
  repo = check.repo
  tok = repo.cls(f'{DS}.stackoverflow', 'DefaultWordTokenizer')
  sot = repo.cls(f'{DS}.stackoverflow', 'StackoverflowTokenizer')
  md = repo.func(f'{MD}.stackoverflow', 'create_lstm_model')
  check.analysed(md)
  roles, problems = model_roles(repo, md)
  env = {k: _role_value(cf, md, roles, k) for k in ('pad', 'bos', 'eos', 'oov', 'full_vocab_size')}
  d0 = md.param_default('vocab_size')
  env['vocab_size'] = cf.eval(md.scope.parent, d0) if d0 is not None else UNKNOWN
  for d, m in (('PAD', 'pad'), ('BOS', 'bos'), ('EOS', 'eos')):
    _cmp(check, md, f'stackoverflow {d}', cf.class_const(tok, d), env.get(m, UNKNOWN),
         f'DefaultWordTokenizer.{d}', f'models.stackoverflow {m} id')
  # offset added to looked-up ids
  fn = tok.method('create_token_to_ids_fn')
  offset = UNKNOWN
  for x in ast.walk(fn.node):
    if isinstance(x, ast.BinOp) and isinstance(x.op, ast.Add) and isinstance(x.left, ast.Call) and txt(x.left.func).endswith('.lookup'):
      offset = cf.eval(fn.scope, x.right)
  init = sot.method('__init__')
  dvs = cf.eval(init.scope.parent, init.param_default('default_vocab_size')) if init.param_default('default_vocab_size') is not None else UNKNOWN
  nob = cf.eval(init.scope.parent, init.param_default('num_oov_buckets')) if init.param_default('num_oov_buckets') is not None else UNKNOWN
  known = not any(isinstance(v, Unknown) for v in (offset, dvs, nob))
  ds_oov = (dvs + offset) if known else UNKNOWN
  ds_size = (dvs + offset + nob) if known else UNKNOWN
  _cmp(check, md, 'stackoverflow OOV', ds_oov, env.get('oov', UNKNOWN), 'default_vocab_size + offset', 'models.stackoverflow.oov')
  _cmp(check, md, 'stackoverflow vocabulary size', ds_size, env.get('full_vocab_size', UNKNOWN),
       'default_vocab_size + offset + num_oov_buckets', 'models.stackoverflow.full_vocab_size')
  _cmp(check, md, 'stackoverflow default vocab size', dvs, env.get('vocab_size', UNKNOWN),
       'StackoverflowTokenizer default_vocab_size', 'models.stackoverflow vocab_size default')
  # the default vocabulary really has default_vocab_size words: the size reaches the loader and the line reader unmodified
  iff = FuncFlow.of(repo, init)
  dv_calls = [c for _, c in iff.calls() if wmean_repo_fn(iff, c) == f'{DS}.stackoverflow:default_vocab']
  ok_dv = len(dv_calls) == 1 and len(dv_calls[0].args) == 1 and iff.param_of(dv_calls[0].args[0]) == 'default_vocab_size'
  check.ob('R-CONST.vocab', init, txt(dv_calls[0])[:60] if dv_calls else 'default_vocab(...)', ok_dv,
           'the tokenizer loads exactly default_vocab_size words (the model\'s OOV id is default_vocab_size + 3)',
           node=dv_calls[0] if dv_calls else None)
  sup = [c for _, c in iff.calls() if isinstance(c.func, ast.Attribute) and c.func.attr == '__init__' and isinstance(c.func.value, ast.Call) and txt(
      c.func.value.func) == 'super']
  ok_sup = False
  if dv_calls and len(sup) == 1 and len(sup[0].args) == 2 and isinstance(sup[0].args[0], ast.Name):
    ds_ = iff.defs_for(sup[0].args[0])
    ok_sup = iff.param_of(sup[0].args[1]) == 'num_oov_buckets' and bool(ds_) and all(
        (d.kind == 'param' and d.name == 'vocab') or d.value is dv_calls[0] for d in ds_)
  check.ob('R-CONST.vocab', init, txt(sup[0])[:60] if sup else 'super().__init__(vocab, num_oov_buckets)', ok_sup,
           'vocabulary and number of OOV buckets are handed to the base tokenizer unchanged')
  dvf = repo.func(f'{DS}.stackoverflow', 'default_vocab')
  dff = FuncFlow.of(repo, dvf)
  sl = [c for _, c in dff.calls() if dff.ext(c.func) == 'itertools.islice']
  ok_sl = len(sl) == 1 and len(sl[0].args) == 2 and dff.param_of(sl[0].args[1]) == dvf.positional_params[0]
  check.ob('R-CONST.vocab', dvf, txt(sl[0])[:60] if sl else 'islice(f, n)', ok_sl, 'the word list is cut after exactly the requested number of lines')
  # the reserved offset equals the number of reserved ids
  reserved = [cf.class_const(tok, n) for n in ('PAD', 'BOS', 'EOS')]
  if not any(isinstance(v, Unknown) for v in reserved + [offset]):
    check.ob('R-CONST', fn, f'lookup(words) + {offset}', offset == max(reserved) + 1,
             f'vocabulary ids are shifted past the reserved ids {reserved}')


def _metric_tables(check: Check):
  """The two language models evaluate the same named quantities: a metric that both tables contain is configured the same way
  in terms of roles (which of pad / eos / oov it masks or looks for)."""
  repo = check.repo
  tables = {}
  for modname in (f'{MD}.shakespeare', f'{MD}.stackoverflow'):
    md = repo.func(modname, 'create_lstm_model')
    ff = FuncFlow.of(repo, md)
    roles, _ = model_roles(repo, md)
    back = {v.id: k.upper() for k, v in roles.items() if isinstance(v, ast.Name)}
    tab = {}
    for x in ast.walk(md.node):
      if isinstance(x, ast.Dict) and x.keys and all(isinstance(k, ast.Constant) and isinstance(k.value, str) for k in x.keys) and any(
          isinstance(v, ast.Call) and txt(v.func).startswith('metrics.') for v in x.values):
        for k, v in zip(x.keys, x.values):
          if not isinstance(v, ast.Call):
            continue
          args = []
          for name, a in sorted(bound_args(ff, v).items()):
            if name == 'logits_mask':
              args.append((name, 'MASK'))
              continue
            ea_ = ff.expand1(a)
            t = ast.unparse(ea_ if isinstance(ea_, ast.Tuple) else a)
            for nm, role in back.items():
              t = re.sub(r'\b' + re.escape(nm) + r'\b', role, t)
            args.append((name, t))
          tab[k.value] = (txt(v.func), tuple(args), v)
    tables[modname] = (md, tab)
  (ma, ta), (mb, tb) = tables[f'{MD}.shakespeare'], tables[f'{MD}.stackoverflow']
  common = sorted(set(ta) & set(tb))
  for k in common:
    same_cfg = ta[k][:2] == tb[k][:2]
    check.ob('R-SIB.metrics', mb, f"'{k}': {ta[k][0]}", same_cfg,
             f"both language models report '{k}' with the same configuration in terms of roles (shakespeare: {dict(ta[k][1])}, "
             f"stackoverflow: {dict(tb[k][1])}); e.g. a token count that also masks EOS no longer counts the labels the tokenizer emits",
             node=tb[k][2])
  check.floor('R-SIB.metrics', 'metrics reported by both language models', len(common), 6)


def _metric_config(check: Check):
  """Metric / loss configuration of both language models uses the model's own special ids consistently."""
  repo = check.repo
  _metric_tables(check)
  for modname in (f'{MD}.shakespeare', f'{MD}.stackoverflow'):
    md = repo.func(modname, 'create_lstm_model')
    ff = FuncFlow.of(repo, md)
    roles, problems = model_roles(repo, md)
    rn = {k: v.id for k, v in roles.items() if isinstance(v, ast.Name)}
    check.ob('R-CONST.use', md, 'special ids recovered from their uses', not problems and all(k in rn for k in ('pad', 'eos', 'oov', 'bos')),
             'every metric masks the same padding id, the same eos / oov ids are used throughout and no literal stands in for an id'
             if not problems else '; '.join(problems))
    n = 0
    for _, c in ff.calls():
      if isinstance(c.func, ast.Attribute) and txt(c.func.value) == 'metrics' and c.func.attr.startswith('Sequence'):
        for kw in c.keywords:
          if kw.arg in ('masked_target_values', 'oov_target_values', 'eos_target_value'):
            n += 1
            kwv = ff.expand1(kw.value)
            kwv = kwv if isinstance(kwv, ast.Tuple) else kw.value
            names = [x.id for x in ast.walk(kwv) if isinstance(x, ast.Name)]
            lits = [x for x in ast.walk(kwv) if isinstance(x, ast.Constant)]
            want = {'masked_target_values': {rn.get('pad')}, 'oov_target_values': {rn.get('oov')}, 'eos_target_value': {rn.get('eos')}}[kw.arg]
            ok = not lits and want <= set(names) and None not in want
            if kw.arg == 'masked_target_values':
              ok = ok and set(names) <= {rn.get('pad'), rn.get('eos')}
            else:
              ok = ok and set(names) == want
            check.ob('R-CONST.use', md, f'{c.func.attr}({kw.arg}=...)', ok,
                     f'{kw.arg}={txt(kw.value)} must be built from the model\'s own {kw.arg.split("_")[0]} id (and only pad/eos may be masked)',
                     node=c)
          if kw.arg == 'logits_mask':
            n += 1
            lm_ok = isinstance(kw.value, ast.Name) and roles.get('_mask_loop') is not None and _is_mask_var(ff, kw.value, roles['_mask_loop'])
            check.ob('R-CONST.use', md, f'{c.func.attr}(logits_mask=...)', lm_ok,
                     'the logits mask passed to the metric is the one built from the special ids', node=c)
    check.floor('R-CONST.use', f'metric id arguments in {modname}', n, 8)
    # logits mask covers exactly the special ids over the full vocabulary
    ok_mask = size_ok = False
    lp = roles.get('_mask_loop')
    if lp is not None:
      ids = {e.id for e in lp.iter.elts}
      tgt = None
      for st in lp.body:
        if isinstance(st, ast.Assign) and isinstance(st.targets[0], ast.Subscript) and isinstance(st.targets[0].value, ast.Name) and '-jnp.inf' in txt(
            st.value) and txt(st.targets[0].slice) == txt(lp.target):
          tgt = st.targets[0].value.id
      ok_mask = tgt is not None and ids == {rn.get('pad'), rn.get('bos'), rn.get('eos'), rn.get('oov')}
      fv = rn.get('full_vocab_size')
      size_ok = tgt is not None and any(isinstance(d.value, ast.ListComp) and isinstance(d.value.generators[0].iter, ast.Call) and txt(
          d.value.generators[0].iter.args[0]) == fv for ds in ff.rd.defs_at.values() for d in ds if d.name == tgt)
    check.ob('R-CONST.use', md, 'logits mask = -inf exactly at (pad, bos, eos, oov) over the full vocabulary', ok_mask and size_ok,
             f'special ids are never predicted: -inf exactly at the four special ids (ok={ok_mask}) over full-vocabulary-size entries (ok={size_ok})')
    # loss mask
    tl = md.nested('train_loss')
    ok_loss = any(isinstance(x, ast.Compare) and isinstance(x.ops[0], ast.NotEq) and txt(x.comparators[0]) == rn.get('pad')
                  for x in ast.walk(tl.node))
    check.ob('R-CONST.use', tl, 'per-token loss masked where targets != pad', ok_loss, 'padding positions carry no loss')
    # embedding / output sizes use the full vocabulary size
    fp = md.nested('forward_pass')
    sizes = [txt(c.args[0]) for c in ast.walk(fp.node) if isinstance(c, ast.Call) and txt(c.func) in ('hk.Embed', 'hk.Linear') and c.args]
    fv = rn.get('full_vocab_size')
    check.ob('R-CONST.use', fp, f'layer sizes', fv in sizes and (sizes.count(fv) >= 2 or modname.endswith('stackoverflow')),
             f'embedding and output layers cover every label the dataset can emit ({sizes})', nontrivial=False)


def _is_mask_var(ff: FuncFlow, name: ast.Name, loop: ast.For) -> bool:
  """name is (a tuple() copy of) the list written in the mask loop."""
  written = {st.targets[0].value.id for st in loop.body if isinstance(st, ast.Assign) and isinstance(st.targets[0], ast.Subscript) and isinstance(
      st.targets[0].value, ast.Name)}
  if name.id in written:
    return True
  for d in ff.defs_for(name):
    v = d.value
    if isinstance(v, ast.Call) and v.args and isinstance(v.args[0], ast.Name) and v.args[0].id in written:
      return True
  return False


def _cifar(check: Check):
  repo = check.repo
  fi = repo.func(f'{DS}.cifar100', 'preprocess_image_tff')
  ff = FuncFlow.of(repo, fi)
  check.analysed(fi)
  # reference from the installed TensorFlow source
  tf_ref = _tf_min_stddev()
  floor = None
  for _, mc in ff.calls():
    if ff.ext(mc.func) in ('numpy.maximum', 'jax.numpy.maximum') and len(mc.args) == 2:
      std = [a for a in mc.args if any(isinstance(x, ast.Call) and ff.ext(x.func) in ('numpy.std',) for x in ff.expand(a))]
      other = [a for a in mc.args if a not in std]
      if std and other:
        floor = other[0]
  if floor is None:
    check.inconclusive('R-SIB.tf', fi, 'np.maximum(std, floor)', 'std floor not found')
  else:
    form = _floor_form(ff, floor)
    want = tf_ref or 'rsqrt'
    check.ob('R-SIB.tf', fi, f'np.maximum(image_std, {txt(floor)})', form == want,
             f'TensorFlow ({ "installed source" if tf_ref else "documented definition"}) floors the standard deviation at '
             f'{want}(num_pixels); fedjax uses {form}(num_pixels): low-contrast / constant images are scaled differently'
             if form != want else f'floor is {form}(num_pixels) as in TensorFlow', node=floor)
    # num_pixels is the per-image element count
    npx = any(isinstance(x, ast.Call) and ff.ext(x.func) == 'numpy.prod' and x.args and '[-3:]' in txt(x.args[0]) for x in ff.deep_walk(floor))
    check.ob('R-SIB.tf', fi, 'num_pixels = prod(image.shape[-3:])', npx, 'pixel count per image (height * width * channels)')
    # ... of the image that is standardised, i.e. after cropping: the array whose shape is taken is the one whose mean / std are taken
    p_img = fi.positional_params[0]
    prod_calls = [c for _, c in ff.calls() if ff.ext(c.func) == 'numpy.prod' and c.args and '[-3:]' in txt(c.args[0])]
    std_calls = [c for _, c in ff.calls() if ff.ext(c.func) == 'numpy.std' and c.args and isinstance(c.args[0], ast.Name)]
    if prod_calls and std_calls:
      src = next((x for x in ast.walk(prod_calls[0].args[0]) if isinstance(x, ast.Name)), None)
      def shape_defs(nm, depth=4):
        out = set()
        for d in ff.defs_for(nm):
          v = d.value
          if depth and isinstance(v, ast.Call) and isinstance(v.func, ast.Attribute) and v.func.attr in ('astype', 'copy') and isinstance(v.func.value, ast.Name):
            out |= shape_defs(v.func.value, depth - 1)   # dtype conversions keep the shape
          else:
            out.add(d)
        return out
      same_img = src is not None and shape_defs(src) == shape_defs(std_calls[0].args[0])
      check.ob('R-SIB.tf', fi, f'{txt(prod_calls[0])[:50]} / {txt(std_calls[0])[:40]}', same_img,
               'the pixel count is that of the cropped image being standardised (the count of the uncropped 32x32 image gives a floor '
               'that is too small for low-contrast crops)', node=prod_calls[0])
  # mean/std over the three image axes, keepdims
  stats_ok = 0
  for _, c in ff.calls():
    if ff.ext(c.func) in ('numpy.mean', 'numpy.std'):
      ax = next((k.value for k in c.keywords if k.arg == 'axis'), None)
      kd = next((k.value for k in c.keywords if k.arg == 'keepdims'), None)
      if ax is not None and sorted(ast.literal_eval(ax)) == [-3, -2, -1] and isinstance(kd, ast.Constant) and kd.value is True:
        stats_ok += 1
  check.ob('R-SIB.tf', fi, 'mean/std over axes (-1, -2, -3), keepdims', stats_ok >= 2,
           'statistics are per image (never across the batch axis)')
  # centre crop offsets
  ok_off = 0
  for ds in ff.rd.defs_at.values():
    for d in ds:
      if isinstance(d.value, ast.BinOp) and isinstance(d.value.op, ast.FloorDiv):
        l, r = d.value.left, d.value.right
        if isinstance(l, ast.BinOp) and isinstance(l.op, ast.Sub) and isinstance(l.left, ast.Constant) and l.left.value == 32 and ff.param_of(
            l.right) in ('crop_height', 'crop_width') and isinstance(r, ast.Constant) and r.value == 2:
          # and the crop slice is [off : off + crop]
          want = ff.param_of(l.right)
          used = any(isinstance(x, ast.Slice) and txt(x.lower) == d.name and txt(x.upper) == f'{d.name} + {want}' for x in ast.walk(fi.node))
          ok_off += 1 if used else 0
  check.ob('R-OFFSET', fi, '(32 - crop) // 2', ok_off == 2, 'the evaluation crop is centred')
  # crop bounds validated
  raises = any(isinstance(n.ast, ast.Raise) for n in ff.cfg.nodes if n.kind == 'stmt')
  check.ob('R-OFFSET', fi, 'crop size validation', raises, 'crop sizes outside 1..32 are rejected', nontrivial=False)
  # the accepted sizes are exactly 1..32 for each of the two parameters: the guard of the raise is a condition on two integers and is
  # tabulated over 0..33 (the other size held at a valid value)
  from fjsa.flow import guards_of
  rs = [n for n in ff.cfg.nodes if n.kind == 'stmt' and isinstance(n.ast, ast.Raise)]
  if len(rs) == 1:
    gs = guards_of(ff, rs[0].ast)
    for prm in ('crop_height', 'crop_width'):
      accepted, unknown = [], False
      for v in range(0, 34):
        env = {'crop_height': 16, 'crop_width': 16}
        env[prm] = v
        vals = [_eval_guard(t, env) for t, _ in gs]
        if any(x is None for x in vals) or not gs:
          unknown = True
          break
        raised = all(x == pol for x, (_, pol) in zip(vals, gs))
        if not raised:
          accepted.append(v)
      ok_rng = None if unknown else accepted == list(range(1, 33))
      shown = f'{accepted[0]}..{accepted[-1]}' if accepted and accepted == list(range(accepted[0], accepted[-1] + 1)) else str(accepted)
      check.ob('R-RANGE', fi, f'accepted {prm}', ok_rng,
               f'exactly the sizes 1..32 pass the validation (found: {"?" if unknown else shown}): a documented size that is rejected, or an '
               'impossible one that is accepted, breaks the crop', node=rs[0].ast)


def _const_int(e):
  if isinstance(e, ast.Constant) and isinstance(e.value, int) and not isinstance(e.value, bool):
    return e.value
  if isinstance(e, ast.UnaryOp) and isinstance(e.op, ast.USub) and isinstance(e.operand, ast.Constant) and isinstance(e.operand.value, int):
    return -e.operand.value
  return None


def _cifar_flip(check: Check):
  """R-AXIS.flip: crop site and flip site of preprocess_image_tff agree on which axis is the width."""
  repo = check.repo
  fi = repo.func(f'{DS}.cifar100', 'preprocess_image_tff')
  ff = FuncFlow.of(repo, fi)
  pp = fi.positional_params
  if len(pp) < 3:
    check.inconclusive('R-AXIS.flip', fi, 'crop_width parameter', 'signature changed')
    return
  hname, wname = pp[1], pp[2]
  RANK = 4
  width_pos = set()
  for s in ast.walk(fi.node):
    if isinstance(s, ast.Subscript) and isinstance(s.slice, ast.Tuple) and len(s.slice.elts) == RANK:
      for i, el in enumerate(s.slice.elts):
        if isinstance(el, ast.Slice) and el.step is None:
          names = {x.id for b in (el.lower, el.upper) if b is not None for x in ff.deep_walk(b) if isinstance(x, ast.Name)}
          if wname in names and hname not in names:   # a bound derived from the width alone (the random-crop bounds mix both)
            width_pos.add(i)
  if len(width_pos) != 1:
    check.inconclusive('R-AXIS.flip', fi, f'slice bounded by {wname}', f'the axis cut by {wname} is not unique: {sorted(width_pos)}')
    return
  w = next(iter(width_pos))
  flips = []   # (node, axis or None, text)
  for x in ast.walk(fi.node):
    if isinstance(x, ast.Call):
      e = ff.ext(x.func)
      if e in ('numpy.flip', 'jax.numpy.flip'):
        ax = x.args[1] if len(x.args) > 1 else next((k.value for k in x.keywords if k.arg == 'axis'), None)
        a = _const_int(ax) if ax is not None else None
        flips.append((x, None if a is None else a % RANK, txt(x)))
      elif e in ('numpy.fliplr', 'jax.numpy.fliplr'):
        flips.append((x, 1, txt(x)))
      elif e in ('numpy.flipud', 'jax.numpy.flipud'):
        flips.append((x, 0, txt(x)))
    elif isinstance(x, ast.Subscript):
      elts = list(x.slice.elts) if isinstance(x.slice, ast.Tuple) else [x.slice]
      ell = [i for i, el in enumerate(elts) if isinstance(el, ast.Constant) and el.value is Ellipsis]
      for i, el in enumerate(elts):
        if isinstance(el, ast.Slice) and el.step is not None and _const_int(el.step) == -1 and el.lower is None and el.upper is None:
          pos = i if not ell or i < ell[0] else RANK - (len(elts) - i)
          flips.append((x, pos, txt(x)))
  if not flips:
    check.inconclusive('R-AXIS.flip', fi, 'np.flip(image, axis=...)', 'no flip found in the distort branch')
    return
  for node, ax, t in flips:
    check.ob('R-AXIS.flip', fi, t, None if ax is None else ax == w,
             f'the flip reverses axis {ax} of the NHWC batch; the {wname} slice cuts axis {w}' +
             ('' if ax == w else ': this is not a left-right flip (tf.image.random_flip_left_right reverses the width axis)'),
             node=node)
  check.floor('R-AXIS.flip', 'flip sites compared with the crop_width axis', len(flips), 1)


def _eval_guard(e: ast.AST, env):
  """Value of a condition built from comparisons of integer names / constants, and / or / not; None when anything else occurs."""
  def num(x):
    if isinstance(x, ast.Constant) and isinstance(x.value, (int, float)) and not isinstance(x.value, bool):
      return x.value
    if isinstance(x, ast.Name) and x.id in env:
      return env[x.id]
    if isinstance(x, ast.UnaryOp) and isinstance(x.op, ast.USub):
      v = num(x.operand)
      return None if v is None else -v
    return None
  if isinstance(e, ast.BoolOp):
    vals = [_eval_guard(v, env) for v in e.values]
    if any(v is None for v in vals):
      return None
    return all(vals) if isinstance(e.op, ast.And) else any(vals)
  if isinstance(e, ast.UnaryOp) and isinstance(e.op, ast.Not):
    v = _eval_guard(e.operand, env)
    return None if v is None else not v
  if isinstance(e, ast.Compare):
    left = num(e.left)
    res = True
    for op, c in zip(e.ops, e.comparators):
      right = num(c)
      if left is None or right is None:
        return None
      r = {ast.Lt: left < right, ast.LtE: left <= right, ast.Gt: left > right, ast.GtE: left >= right, ast.Eq: left == right,
           ast.NotEq: left != right}.get(type(op))
      if r is None:
        return None
      res = res and r
      left = right
    return res
  return None


def _tf_min_stddev() -> Optional[str]:
  """'rsqrt' if the installed TensorFlow source floors at rsqrt(num_pixels)."""
  try:
    import importlib.util
    spec = importlib.util.find_spec('tensorflow')
    if spec is None or not spec.submodule_search_locations:
      return None
    path = os.path.join(list(spec.submodule_search_locations)[0], 'python', 'ops', 'image_ops_impl.py')
    with open(path, encoding='utf-8') as f:
      tree = ast.parse(f.read())
  except Exception:  # pylint: disable=broad-except
    return None
  for node in ast.walk(tree):
    if isinstance(node, ast.FunctionDef) and node.name == 'per_image_standardization':
      for st in ast.walk(node):
        if isinstance(st, ast.Assign) and isinstance(st.targets[0], ast.Name) and st.targets[0].id == 'min_stddev' and isinstance(
            st.value, ast.Call):
          return txt(st.value.func).split('.')[-1]
  return None


def _floor_form(ff: FuncFlow, e: ast.AST) -> str:
  """Normal form of the floor as a function of num_pixels: 'rsqrt', 'sqrt', 'const' or 'other'."""
  for x in ff.expand(e):
    if isinstance(x, ast.BinOp) and isinstance(x.op, ast.Div) and isinstance(x.left, ast.Constant) and x.left.value == 1:
      inner = x.right
      if isinstance(inner, ast.Call) and ff.ext(inner.func) in ('numpy.sqrt', 'math.sqrt', 'jax.numpy.sqrt'):
        return 'rsqrt'
    if isinstance(x, ast.BinOp) and isinstance(x.op, ast.Pow):
      try:
        p = ast.literal_eval(x.right)
      except Exception:  # pylint: disable=broad-except
        p = None
      if p == -0.5:
        return 'rsqrt'
      if p == 0.5:
        return 'sqrt'
    if isinstance(x, ast.Call) and ff.ext(x.func) in ('numpy.reciprocal',) and x.args and isinstance(x.args[0], ast.Call) and ff.ext(
        x.args[0].func) in ('numpy.sqrt',):
      return 'rsqrt'
    if isinstance(x, ast.Call) and ff.ext(x.func) in ('numpy.sqrt', 'math.sqrt', 'jax.numpy.sqrt'):
      return 'sqrt'
    if isinstance(x, ast.Constant):
      return 'const'
  return 'other'


def _tasks(check: Check):
  repo = check.repo
  fi = repo.func('fedjax.training.tasks', 'get_task')
  ff = FuncFlow.of(repo, fi)
  check.analysed(fi)
  n = 0
  for nd in ff.cfg.nodes:
    if nd.kind != 'if':
      continue
    body = nd.ast.body
    ds_kw = md_kw = None
    ds_name = md_name = None
    for st in body:
      for c in ast.walk(st):
        if isinstance(c, ast.Call):
          f = txt(c.func)
          if f.startswith('datasets.') and f.endswith('.load_data'):
            ds_name = f.split('.')[1]
            ds_kw = {k: txt(v) for k, v in bound_args(ff, c).items()}
          if f.startswith('models.') and '.create_' in f:
            md_name = f.split('.')[1]
            md_kw = {k: txt(v) for k, v in bound_args(ff, c).items()}
    # the evaluation split is preprocessed deterministically: whatever is handed to test.preprocess_batch(...) must not switch the
    # training-time distortion (random crop / flip) on
    for st in body:
      for c in ast.walk(st):
        if isinstance(c, ast.Call) and isinstance(c.func, ast.Attribute) and c.func.attr in ('preprocess_batch', 'preprocess_client') and isinstance(
            c.func.value, ast.Name) and c.func.value.id in ('test', 'test_fd', 'test_data', 'eval', 'held_out') and c.args:
          for v in ff.expand(c.args[0]):
            if isinstance(v, ast.Call) and (ff.ext(v.func) or '') == 'functools.partial':
              flags = {k.arg: k.value for k in v.keywords}
              for nm in ('distort', 'is_train', 'augment', 'training'):
                if nm in flags and isinstance(flags[nm], ast.Constant) and flags[nm].value is True:
                  check.ob('R-TASK.eval-split', fi, txt(c)[:70], False,
                           f'the test split is preprocessed with {nm}=True: evaluation then sees random crops / flips instead of the '
                           'standardised centre crop, and differs from pass to pass', node=c, exact=True)
    if ds_name is None or md_name is None:
      continue
    n += 1
    ok = ds_name == md_name
    if ds_name == 'emnist':
      ok = ok and ds_kw.get('only_digits') == md_kw.get('only_digits')
    check.ob('R-TASK', fi, f'{txt(nd.ast.test)}: datasets.{ds_name} / models.{md_name}', ok,
             f'dataset and model of a task must belong together (only_digits: dataset {ds_kw.get("only_digits")}, model '
             f'{md_kw.get("only_digits")})', node=nd.ast)
  check.floor('R-TASK', 'tasks', n, 6)
  # EMNIST models: 10 classes for digits, 62 otherwise
  for q in ('create_conv_model', 'create_dense_model', 'create_logistic_model', 'create_stax_dense_model'):
    try:
      m = repo.func(f'{MD}.emnist', q)
    except Exception:  # pylint: disable=broad-except
      continue
    vals = [txt(x) for x in ast.walk(m.node) if isinstance(x, ast.IfExp) and txt(x.test) == 'only_digits']
    ok = any(v == '10 if only_digits else 62' for v in vals)
    check.ob('R-TASK.classes', m, 'num_classes = 10 if only_digits else 62', ok, f'EMNIST has 10 labels with only_digits and 62 otherwise ({vals})',
             nontrivial=False)


def _layout(check: Check):
  """Language models run the recurrent core time-major: the batch is transposed on the way in and the logits are transposed back
  (a reshape would keep the memory order and mix rows)."""
  repo = check.repo
  n = 0
  for modname in (MD + '.shakespeare', MD + '.stackoverflow'):
    md = repo.func(modname, 'create_lstm_model')
    try:
      fp = md.nested('forward_pass')
    except Exception:  # pylint: disable=broad-except
      continue
    ff = FuncFlow.of(repo, fp)
    check.analysed(fp)
    unroll = [c for _, c in ff.calls() if (ff.ext(c.func) or '').endswith(('static_unroll', 'dynamic_unroll'))]
    if not unroll:
      continue
    n += 1
    verdict, how = None, ''
    for _, rv in ff.returns():
      for v in ff.expand(rv):
        if isinstance(v, ast.Call) and ff.ext(v.func) in ('jax.numpy.transpose', 'jax.numpy.swapaxes', 'jax.numpy.moveaxis', 'jax.numpy.einsum'):
          p = ff.ext(v.func).split('.')[-1]
          if p == 'transpose':
            ax = next((k.value for k in v.keywords if k.arg == 'axes'), v.args[1] if len(v.args) > 1 else None)
            verdict = ax is not None and txt(ax).replace(' ', '') in ('(1,0,2)', '[1,0,2]')
            how = f'transpose axes={txt(ax) if ax is not None else None}'
          elif p == 'swapaxes':
            verdict = len(v.args) == 3 and {txt(v.args[1]), txt(v.args[2])} == {'0', '1'}
            how = 'swapaxes'
          else:
            verdict, how = None, p
        elif isinstance(v, ast.Call) and (ff.ext(v.func) in ('jax.numpy.reshape',) or (isinstance(v.func, ast.Attribute) and v.func.attr == 'reshape')):
          verdict, how = False, 'reshape'
    if verdict is None:
      check.undecided(f'{modname}.forward_pass: output layout conversion not recognised ({how})')
      continue
    check.ob('R-ROW.layout', fp, f'[time, batch, vocab] -> [batch, time, vocab] by {how}', verdict,
             'the logits leave the recurrent core time-major and must be transposed to batch-major; a reshape to the same shape keeps the '
             'memory order, so every row would be assembled from other rows\' time steps')
  check.floor('R-ROW.layout', 'recurrent language models', n, 2)


def _row_independence(check: Check):
  repo = check.repo
  _layout(check)
  n_loss = 0
  for name, m in repo.modules.items():
    # the property speaks of the packaged *classification and language* models; toy_regression deliberately
    # fits a batch-level mean and is out of scope
    if name not in (MD + '.emnist', MD + '.cifar100', MD + '.shakespeare', MD + '.stackoverflow'):
      continue
    for node in ast.walk(m.tree):
      if isinstance(node, ast.Attribute) and node.attr in ('BatchNorm', 'batch_norm', 'BatchNormalization'):
        check.ob('R-ROW', m, txt(node), False, 'batch normalisation couples the rows of a batch', node=node)
    for fi in m.functions():
      if fi.name != 'train_loss':
        continue
      n_loss += 1
      ff = FuncFlow.of(repo, fi)
      for _, c in ff.calls():
        if ff.ext(c.func) in ('jax.numpy.mean', 'jax.numpy.sum', 'jax.numpy.max'):
          ax = next((k.value for k in c.keywords if k.arg == 'axis'), None)
          ok = ax is not None and txt(ax) in ('-1', '1', '(1,)', '(-1,)')
          check.ob('R-ROW', fi, txt(c)[:70], ok,
                   'a reduction in train_loss must keep the batch axis (axis=-1): otherwise an example\'s loss depends on the '
                   'other rows', node=c)
      # the number of rows of the batch is not an ingredient of a row's loss: len(<batch array>) / <batch array>.shape[0] must not appear
      # (dividing the summed token loss by len(targets) divides by the batch size, not by the sequence length)
      batch_names = {p_ for p_ in fi.params} | {d.name for ds in ff.rd.defs_at.values() for d in ds if d.value is not None and any(
          isinstance(y, ast.Subscript) and ff.param_of(y.value) in fi.params for y in ff.expand(d.value))}
      for _, c in ff.calls():
        if ff.ext(c.func) == 'builtins.len' and c.args and isinstance(c.args[0], ast.Name) and c.args[0].id in batch_names:
          check.ob('R-ROW.batch-size', fi, txt(c), False,
                   f'`{txt(c)}` is the number of rows in the batch: a per-example loss that uses it changes with the batch composition',
                   node=c, exact=True)
      for nd in ff.cfg.nodes:
        if nd.ast is None:
          continue
        for x in nd.walk():
          if isinstance(x, ast.Subscript) and isinstance(x.value, ast.Attribute) and x.value.attr == 'shape' and isinstance(
              x.value.value, ast.Name) and x.value.value.id in batch_names and txt(x.slice) == '0':
            check.ob('R-ROW.batch-size', fi, txt(x), False, f'`{txt(x)}` is the batch size: a per-example loss must not depend on it',
                     node=x, exact=True)
      # every value train_loss returns is the *masked* loss: a return that sums the unmasked per-token loss counts padding tokens
      masks = [x for nd in ff.cfg.nodes if nd.ast is not None for x in nd.walk() if isinstance(x, ast.Compare) and len(x.ops) == 1 and isinstance(
          x.ops[0], ast.NotEq) and any(isinstance(y, ast.Name) and y.id == 'pad' for y in ast.walk(x))]
      for mk in masks:
        # the mask multiplies the per-token loss (loss * mask, loss *= mask): assigning the mask in place of the loss loses the loss
        par = ff.module.parent_of.get(mk)
        mult = (isinstance(par, ast.BinOp) and isinstance(par.op, ast.Mult)) or (isinstance(par, ast.AugAssign) and isinstance(par.op, ast.Mult)) or (
            isinstance(par, ast.Call) and (ff.ext(par.func) or '').split('.')[-1] in ('where', 'multiply'))
        check.ob('R-ROW.masked', fi, txt(par)[:70] if par is not None else txt(mk), bool(mult),
                 'the padding mask multiplies (or selects from) the per-token loss', node=mk, exact=True)
      if masks:
        for _, rv in ff.returns():
          if rv is None:
            continue
          reaches = any(any(y is mk for mk in masks) for y in ff.deep_walk(rv)) or any(
              isinstance(y, ast.Name) and any(getattr(d.node, 'ast', None) is not None and any(z is mk for mk in masks for z in ast.walk(d.node.ast))
                                              for d in ff.defs_for(y)) for y in ff.deep_walk(rv))
          check.ob('R-ROW.masked', fi, 'return ' + txt(rv)[:60], reaches,
                   'the returned loss is built from the padding-masked per-token loss', node=rv, exact=True)
  check.ob('R-ROW', (f'fedjax/models/*', 'train_loss'), f'{n_loss} train_loss functions, no BatchNorm', True,
           'scanned packaged models', nontrivial=False)
  check.floor('R-ROW', 'train_loss functions', n_loss, 2)


def _emnist(check: Check, cf: ConstFolder):
  repo = check.repo
  fi = repo.func(f'{DS}.emnist', 'domain_id')
  ff = FuncFlow.of(repo, fi)
  check.analysed(fi)
  n = 0
  for nd in ff.cfg.nodes:
    if nd.kind == 'if' and isinstance(nd.ast.test, ast.Compare) and txt(nd.ast.test.left).startswith('len('):
      L = cf.eval(fi.scope, nd.ast.test.comparators[0])
      for st in nd.ast.body:
        for x in ast.walk(st):
          if isinstance(x, ast.Subscript) and isinstance(x.slice, ast.Slice):
            a, b = cf.eval(fi.scope, x.slice.lower), cf.eval(fi.scope, x.slice.upper)
            n += 1
            ok = isinstance(L, int) and a == L - 7 and b == L - 3
            check.ob('R-OFFSET', fi, f'len == {L}: client_id[{a}:{b}]', ok,
                     'the 4-digit writer number sits 7..3 characters before the end in both documented id formats '
                     '("...f[4 digits]_[2 digits]")')
  if n == 0:
    # located by a regular expression instead of by position: it has to be anchored (fullmatch or ^...$), an unanchored search takes
    # the first "f + 4 digits", which can lie inside the hash part of the id
    rx_calls = [c for _, c in ff.calls() if isinstance(c.func, ast.Attribute) and c.func.attr in ('search', 'match', 'fullmatch', 'findall')]
    judged = False
    for c in rx_calls:
      pats = []
      for v in ff.expand(c.func.value) + ([c.args[0]] if ff.ext(c.func) in ('re.search', 're.match', 're.fullmatch') and c.args else []):
        r_ = repo.resolve(fi.scope, v) if isinstance(v, (ast.Name, ast.Attribute)) else None
        vals = [b.value for b in r_.bindings] if (r_ is not None and r_.kind == 'local') else [v]
        for w in vals:
          if isinstance(w, ast.Call) and w.args and isinstance(w.args[0], ast.Constant) and isinstance(w.args[0].value, (str, bytes)):
            pats.append(w.args[0].value)
          elif isinstance(w, ast.Constant) and isinstance(w.value, (str, bytes)):
            pats.append(w.value)
      for p_ in pats:
        ps = p_.decode('latin1') if isinstance(p_, bytes) else p_
        anchored = c.func.attr == 'fullmatch' or (ps.startswith('^') or c.func.attr == 'match') and (ps.endswith('$') or ps.endswith('\\Z'))
        judged = True
        check.ob('R-OFFSET.anchored', fi, f'{c.func.attr}({ps!r})', anchored,
                 'the writer number is taken from a fixed place of the id; an unanchored regular-expression search returns the first '
                 '"f + 4 digits" anywhere in the id, e.g. inside its hash prefix', node=c)
    if not judged:
      check.floor('R-OFFSET', 'writer-id slices', n, 2)
  else:
    check.floor('R-OFFSET', 'writer-id slices', n, 2)
  # documented range test is a closed interval
  ok = any(isinstance(x, ast.BoolOp) and all(isinstance(v, ast.Compare) and isinstance(v.ops[0], ast.LtE) for v in x.values)
           for x in ast.walk(fi.node))
  check.ob('R-OFFSET', fi, '2100 <= cid <= 2599', ok, 'HIGH_SCHOOL writers form a closed id interval', nontrivial=False)
