"""C13 - client sampling is a pure function of (seed, round number) (structural part)."""
from __future__ import annotations

import ast
from typing import List, Optional

from fjsa.flow import self_txt, FuncFlow, call_args, same, txt
from fjsa.model import FuncInfo
from fjsa.report import Check
from fjsa.rules import wmean
from fjsa.rules.keys import KeyAnalysis, check_function
from fjsa.rules.pure import PurityAnalysis

MOD = 'fedjax.core.client_samplers'


def _self_attr_stores(fi: FuncInfo) -> List[ast.AST]:
  out = []
  for x in ast.walk(fi.node):
    if isinstance(x, ast.Attribute) and isinstance(x.ctx, (ast.Store, ast.Del)) and isinstance(x.value, ast.Name) and x.value.id == 'self':
      out.append(x)
  return out


def run(check: Check):
  repo = check.repo
  check.rule('R-PURE', 'outside __init__ the samplers write only self._round_num (sample: += 1 exactly once on every path, '
             'after the round number has been used; set_round_num: a plain store of its argument); the dataset is never written')
  check.rule('R-SEED', 'the per-round numpy RandomState is built inside sample() from exactly (self._seed, self._round_num) by '
             'get_pseudo_random_state, which touches no global RNG; client keys are split(PRNGKey(self._round_num), cohort)')
  check.rule('R-CHOICE', 'ids are drawn by choice(np.array(ids, dtype=object), size=self._num_clients, replace=False); datasets '
             'come from get_clients(<those ids>) of the same dataset and are paired with keys by position')
  check.rule('R-STREAM', 'the streaming sampler skips start_round_num * num_clients items at construction and draws exactly '
             'num_clients items per round')
  check.undecided('distinctness of the Lehmer seeds across rounds; statistical uniformity; numpy choice semantics')
  sampler_rules(check)
  shf = repo.cls(MOD, 'UniformShuffledClientSampler')
  get = repo.cls(MOD, 'UniformGetClientSampler')
  _shuffled_sampler(check, shf)
  # the streaming sampler reproduces rounds only over a reproducibly seeded client stream
  from fjsa.props import c08
  for ci in c08.federated_impls(repo):
    c08.shuffled_stream(check, ci, 'R-STREAM.seeded')
  # ... and only if the stream's pass order is fixed (sorted ids, not hash order of a set)
  c08.sorted_ids_rule(check, 'R-STREAM.sorted')
  # ... and only if reading a client in between does not disturb the pass (no cursor shared between queries)
  c08._cursors(check, 'R-STREAM.cursor')
  # within a round no client repeats: the ids the sampler draws from are distinct
  c08.subset_ids_are_a_set(check, 'R-CHOICE.distinct')
  # reading a stream of clients leaves the dataset as it was (an id list shuffled in place changes every later stream and cohort)
  c08.view_purity(check, c08.federated_impls(repo), 'R-STREAM.pure', only={'shuffled_clients', 'clients', 'get_clients', 'client_ids'})
  ka = KeyAnalysis(repo)
  for ci in (get, shf):
    check_function(check, ka, ci.method('sample'), 'R-KEY', step_like=False)


def sampler_rules(check: Check):
  """Round-indexed sampling is a function of (seed, round): shared by C13 and C09 (resuming seats the sampler at a round)."""
  repo = check.repo
  get = repo.cls(MOD, 'UniformGetClientSampler')
  shf = repo.cls(MOD, 'UniformShuffledClientSampler')
  pa = PurityAnalysis(repo)
  for ci in (get, shf):
    for name, mth in ci.methods.items():
      if name == '__init__':
        continue
      check.analysed(mth)
      stores = _self_attr_stores(mth)
      others = [s for s in stores if s.attr != '_round_num']
      for s in others:
        check.ob('R-PURE', mth, txt(s), False, f'{ci.name}.{name} writes self.{s.attr}: sampling would depend on call history', node=s, exact=True)
      muts = [mu for mu in pa.mutations(mth) if mu.root in mth.params and not (mu.root == 'self' and '_round_num' in mu.construct)]
      for mu in muts:
        check.ob('R-PURE', mth, mu.construct, False, f'{mu.how} through {mu.root}', node=mu.node, exact=True)
      if not others and not muts:
        check.ob('R-PURE', mth, f'{ci.name}.{name}', True, f'writes only self._round_num ({len(stores)} store(s))')
  _get_sampler(check, get)
  _prs(check)


def _round_increment(check: Check, mth: FuncInfo):
  """self._round_num += 1 exactly once on every path, after every read of it."""
  repo = check.repo
  ff = FuncFlow.of(repo, mth)
  incs = [n for n in ff.cfg.nodes if n.kind == 'stmt' and isinstance(n.ast, ast.AugAssign) and txt(n.ast.target) == 'self._round_num']
  ok = len(incs) == 1 and isinstance(incs[0].ast.op, ast.Add) and isinstance(incs[0].ast.value, ast.Constant) and incs[0].ast.value.value == 1
  every = False
  after = False
  if ok:
    inc = incs[0]
    reach = ff.cfg.reachable_from([ff.cfg.entry], avoid={inc.id}, labels_excluded=('exc', 'raise', 'reraise'))
    every = ff.cfg.exit.id not in reach and not ff.cfg.in_loop(inc)
    reads = [n for n in ff.cfg.nodes if n is not inc and n.ast is not None and any(
        isinstance(x, ast.Attribute) and x.attr == '_round_num' and isinstance(x.ctx, ast.Load) for x in n.walk())]
    after = all(not ff.cfg.reaches(inc, r) for r in reads) and bool(reads)
  if ok:
    # the counter moves last: nothing that can fail (fetching the clients, drawing from the stream) runs after it, otherwise an
    # exception leaves the sampler one round ahead and a retry / restart does not reproduce the round
    inc = incs[0]
    def may_fail(x):
      # what the sampler depends on from outside: the dataset / the stream (methods reached through self, next(...)) and repository code
      if not isinstance(x, ast.Call):
        return False
      if ff.ext(x.func) == 'builtins.next':
        return True
      if isinstance(x.func, ast.Attribute):
        root = x.func.value
        while isinstance(root, ast.Attribute):
          root = root.value
        if isinstance(root, ast.Name) and root.id == 'self':
          return True
      return ff.callee(x).kind == 'func'
    later = [n for n in ff.cfg.nodes if n is not inc and n.ast is not None and ff.cfg.reaches(inc, n) and not ff.cfg.reaches(n, inc) and any(
        may_fail(x) for x in n.walk())]
    check.ob('R-PURE.round-last', mth, 'self._round_num += 1 is the last effect', not later,
             'the round counter is advanced after the cohort has been produced' if not later else
             f'`{txt(later[0].ast)[:60]}` still runs after the round counter has moved: if it raises, the sampler has skipped a round',
             node=inc.ast, exact=True)
  check.ob('R-PURE.round', mth, 'self._round_num += 1', ok and every and after,
           f'the round counter advances by exactly one per sample() (single site={ok}, on every path and not in a loop={every}) '
           f'and only after the current round number has been used (ok={after})')


def _get_sampler(check: Check, ci):
  repo = check.repo
  sample = ci.method('sample')
  ff = FuncFlow.of(repo, sample)
  _round_increment(check, sample)
  # set_round_num
  srn = ci.method('set_round_num')
  ok = False
  for st in srn.node.body:
    if isinstance(st, ast.Assign) and txt(st.targets[0]) == 'self._round_num' and isinstance(st.value, ast.Name) and st.value.id == srn.positional_params[1]:
      ok = True
  check.ob('R-PURE.round', srn, 'self._round_num = round_num', ok and len(srn.node.body) <= 2,
           'seating the sampler stores exactly the requested round number')
  # random state
  prs_calls = [c for _, c in ff.calls() if wmean.repo_fn(ff, c) == f'{MOD}:get_pseudo_random_state']
  ok_rs = len(prs_calls) == 1 and [self_txt(ff, a) for a in prs_calls[0].args] == ['self._seed', 'self._round_num'] and wmean._loop_of(ff, prs_calls[0]) is None
  check.ob('R-SEED', sample, txt(prs_calls[0]) if prs_calls else 'get_pseudo_random_state', ok_rs,
           'a fresh RandomState per call, derived from (self._seed, self._round_num) only')
  other_rng = [c for _, c in ff.calls() if (ff.ext(c.func) or '').startswith('numpy.random.')]
  check.ob('R-SEED', sample, 'no other numpy RNG in sample()', not other_rng,
           'no global / additional numpy randomness' if not other_rng else f'also uses {txt(other_rng[0].func)}')
  # choice
  choice = [c for _, c in ff.calls() if isinstance(c.func, ast.Attribute) and c.func.attr == 'choice']
  okc = False
  why = 'choice call not found'
  ids_name = None
  if len(choice) == 1:
    c = choice[0]
    recv_ok = any(v is prs_calls[0] for v in ff.expand(c.func.value)) if prs_calls else False
    kw = {k.arg: k.value for k in c.keywords}
    pop = c.args[0] if c.args else kw.get('a')
    if isinstance(pop, ast.Attribute) and isinstance(pop.value, ast.Name) and pop.value.id == 'self' and '__init__' in ci.methods:
      # a population array prepared once in the constructor: self.X = np.array(self._client_ids, dtype=object)
      stores = [st.value for st in ast.walk(ci.methods['__init__'].node) if isinstance(st, ast.Assign) and len(st.targets) == 1 and txt(
          st.targets[0]) == txt(pop)]
      if len(stores) == 1 and not any(isinstance(x, ast.Attribute) and isinstance(x.ctx, ast.Store) and txt(x) == txt(pop)
                                      for name, mth in ci.methods.items() if name != '__init__' for x in ast.walk(mth.node)):
        pop = stores[0]
    pop_ok = isinstance(pop, ast.Call) and ff.ext(pop.func) == 'numpy.array' and pop.args and txt(pop.args[0]) == 'self._client_ids' and any(
        k.arg == 'dtype' and txt(k.value) in ('object', 'np.object_') for k in pop.keywords)
    rep = kw.get('replace')
    rep_ok = isinstance(rep, ast.Constant) and rep.value is False
    size = kw.get('size', c.args[1] if len(c.args) > 1 else None)
    size_ok = size is not None and txt(size) == 'self._num_clients'
    okc = recv_ok and pop_ok and rep_ok and size_ok
    why = f'receiver is the per-round RandomState={recv_ok}, population np.array(self._client_ids, dtype=object)={pop_ok}, replace=False={rep_ok}, size=self._num_clients={size_ok}'
    st = ff.module.enclosing_stmt(c)
    if isinstance(st, ast.Assign) and isinstance(st.targets[0], ast.Name):
      ids_name = st.targets[0].id
  check.ob('R-CHOICE', sample, 'random_state.choice(np.array(ids, dtype=object), size=n, replace=False)', okc,
           f'no client is repeated within a round and ids keep trailing zero bytes: {why}')
  # datasets from the same federated data for exactly those ids
  gc = [c for _, c in ff.calls() if isinstance(c.func, ast.Attribute) and c.func.attr == 'get_clients']
  okg = len(gc) == 1 and txt(gc[0].func.value) == 'self._federated_data' and len(gc[0].args) == 1 and len(choice) == 1 and any(
      v is choice[0] for v in ff.expand(gc[0].args[0]))
  check.ob('R-CHOICE', sample, txt(gc[0])[:70] if gc else 'get_clients', okg,
           'datasets are fetched for exactly the sampled ids from the sampler\'s own dataset')
  # keys
  _keys(check, sample, ff)
  # pairing by position
  okp = False
  for n in ff.cfg.nodes:
    if n.kind == 'for' and isinstance(n.ast.iter, ast.Call) and ff.ext(n.ast.iter.func) == 'builtins.enumerate':
      tg = n.ast.target
      if isinstance(tg, ast.Tuple) and isinstance(tg.elts[0], ast.Name) and isinstance(tg.elts[1], ast.Tuple):
        i = tg.elts[0].id
        cid, cds = [e.id for e in tg.elts[1].elts]
        for st in n.ast.body:
          for c in ast.walk(st):
            if isinstance(c, ast.Call) and isinstance(c.func, ast.Attribute) and c.func.attr == 'append' and c.args and isinstance(c.args[0], ast.Tuple):
              e = c.args[0].elts
              okp = len(e) == 3 and txt(e[0]) == cid and txt(e[1]) == cds and isinstance(e[2], ast.Subscript) and txt(
                  e[2].value) == _keys_var(ff) and txt(e[2].slice) == i
  check.ob('R-CHOICE.pair', sample, 'append((client_id, client_dataset, keys[i]))', okp,
           'the i-th sampled client receives its own dataset and the i-th key')
  # snapshot of ids at construction
  init = ci.method('__init__')
  snap = any(isinstance(st, ast.Assign) and txt(st.targets[0]) == 'self._client_ids' and 'client_ids()' in txt(st.value) and txt(
      st.value).startswith('list(') for st in init.node.body)
  rn = any(isinstance(st, ast.Assign) and txt(st.targets[0]) == 'self._round_num' and txt(st.value) == 'start_round_num' for st in init.node.body)
  check.ob('R-SEED.init', init, 'self._client_ids = list(fd.client_ids()); self._round_num = start_round_num', snap and rn,
           'the population is fixed at construction (deterministic order of client_ids()) and the sampler starts at the requested round')


def _keys_var(ff: FuncFlow):
  for ds in ff.rd.defs_at.values():
    for d in ds:
      if isinstance(d.value, ast.Call) and ff.ext(d.value.func) == 'jax.random.split':
        return d.name
  return None


def _keys(check: Check, sample: FuncInfo, ff: FuncFlow):
  ok = False
  for _, c in ff.calls():
    if ff.ext(c.func) == 'jax.random.split' and (len(c.args) == 2 or (len(c.args) == 1 and any(k.arg == 'num' for k in c.keywords))):
      a0 = c.args[0]
      a1 = c.args[1] if len(c.args) == 2 else next(k.value for k in c.keywords if k.arg == 'num')
      ok = isinstance(a0, ast.Call) and ff.ext(a0.func) in ('jax.random.PRNGKey', 'jax.random.key') and a0.args and self_txt(
          ff, a0.args[0]) == 'self._round_num' and self_txt(ff, a1) == 'self._num_clients'
  check.ob('R-SEED.keys', sample, 'split(PRNGKey(self._round_num), self._num_clients)', ok,
           'client keys depend on the round number only: one distinct key per cohort slot, different from round to round')


def _shuffled_sampler(check: Check, ci):
  repo = check.repo
  sample = ci.method('sample')
  ff = FuncFlow.of(repo, sample)
  _round_increment(check, sample)
  _keys(check, sample, ff)
  # exactly num_clients next() per round
  ok = None
  for n in ff.cfg.nodes:
    if n.kind == 'for' and isinstance(n.ast.iter, ast.Call) and ff.ext(n.ast.iter.func) == 'builtins.range' and self_txt(ff, n.ast.iter.args[0]) == 'self._num_clients':
      nx = [c for st in n.ast.body for c in ast.walk(st) if isinstance(c, ast.Call) and txt(c.func) == 'next' and self_txt(ff, c.args[0]) == 'self._shuffled_clients_iter']
      app = [c for st in n.ast.body for c in ast.walk(st) if isinstance(c, ast.Call) and isinstance(c.func, ast.Attribute) and c.func.attr == 'append']
      idx = n.ast.target.id if isinstance(n.ast.target, ast.Name) else None
      key_ok = any(isinstance(c.args[0], ast.Tuple) and len(c.args[0].elts) == 3 and txt(c.args[0].elts[2]) == f'{_keys_var(ff)}[{idx}]' for c in app if c.args)
      ok = len(nx) == 1 and len(app) == 1 and key_ok
  check.ob('R-STREAM', sample, 'for i in range(num_clients): next(stream)', ok,
           'each round consumes exactly num_clients items of the stream and pairs the i-th with the i-th key')
  init = ci.method('__init__')
  iff = FuncFlow.of(repo, init)
  skip_ok = False
  for n in iff.cfg.nodes:
    if n.kind == 'for' and isinstance(n.ast.iter, ast.Call) and n.ast.iter.args and self_txt(iff, n.ast.iter.args[0]) == 'self._round_num':
      inner = [s for s in n.ast.body if isinstance(s, ast.For)]
      if inner and isinstance(inner[0].iter, ast.Call) and inner[0].iter.args and self_txt(iff, inner[0].iter.args[0]) == 'self._num_clients':
        nx = [c for c in ast.walk(inner[0]) if isinstance(c, ast.Call) and txt(c.func) == 'next']
        skip_ok = len(nx) == 1
  rn = any(isinstance(st, ast.Assign) and txt(st.targets[0]) == 'self._round_num' and txt(st.value) == 'start_round_num' for st in init.node.body)
  check.ob('R-STREAM', init, 'skip start_round_num * num_clients items', skip_ok and rn,
           f'a sampler started at round r first discards the items of rounds 0..r-1 (ok={skip_ok}) and numbers its rounds from r (ok={rn})')


def _prs(check: Check):
  repo = check.repo
  fi = repo.func(MOD, 'get_pseudo_random_state')
  ff = FuncFlow.of(repo, fi)
  check.analysed(fi)
  p_seed, p_round = fi.positional_params[:2]
  rng_calls = [c for _, c in ff.calls() if (ff.ext(c.func) or '').startswith('numpy.random.')]
  only_rs = all(ff.ext(c.func) == 'numpy.random.RandomState' for c in rng_calls) and len(rng_calls) == 2
  seeded = any(ff.ext(c.func) == 'numpy.random.RandomState' and c.args and ff.param_of(c.args[0]) == p_seed for c in rng_calls)
  free = set()
  for st in fi.node.body:
    for x in ast.walk(st):
      if isinstance(x, ast.Name) and isinstance(x.ctx, ast.Load) and fi.scope.lookup_scope(x.id) is not fi.scope:
        r = repo.resolve(fi.scope, x)
        if r.kind not in ('ext', 'module', 'func', 'class'):
          free.add(x.id)
  uses_round = False
  for _, rv in ff.returns():
    if isinstance(rv, ast.Call) and ff.ext(rv.func) == 'numpy.random.RandomState' and rv.args:
      prov = list(ff.deep_walk(rv.args[0]))
      uses_round = any(isinstance(x, ast.Name) and x.id == p_round and isinstance(x.ctx, ast.Load) for x in prov) and any(
          isinstance(c, ast.Call) and ff.ext(c.func) == 'numpy.random.RandomState' and c.args and ff.param_of(c.args[0]) == p_seed for c in prov)
  check.ob('R-SEED', fi, 'RandomState(f(seed, round))', only_rs and seeded and uses_round and not free,
           f'closed function of its two arguments: only explicitly seeded RandomState instances (ok={only_rs}), the seed seeds the '
           f'start value (ok={seeded}), the returned state depends on both start and round (ok={uses_round}), no free variables '
           f'({sorted(free)})')
