"""C16 - serialization round-trips every supported value exactly (structural part)."""
from __future__ import annotations

import ast
import re
from typing import Dict, List, Optional, Tuple

from fjsa.flow import FuncFlow, call_args, guards_of, same, txt
from fjsa.model import FuncInfo
from fjsa.report import Check
from fjsa.rules import wmean
from fjsa.rules.atomic import ext_path

SER = 'fedjax.core.serialization'
SQL = 'fedjax.core.sqlite_federated_data'


def run(check: Check):
  repo = check.repo
  check.rule('R-SIB.ext', 'every msgpack extension code produced by the packer has a branch in the unpacker calling the '
             'inverse helper and vice versa; tuple arity written = arity unpacked; enum codes are distinct')
  check.rule('R-PAIR.layout', 'array bytes are written in C order and reshaped in C order; the dtype descriptor written '
             'must determine the bytes: dtype.name drops the byte order, so the array is normalised to native order first '
             '(or dtype.str is written)')
  check.rule('R-PAIR.flags', 'strict_types=True (tuples rejected, not turned into lists); raw flags consistent with the '
             'bytes-literal dtype comparison; object arrays are checked for bytes content')
  check.rule('R-SIB.sqlite', 'writer zlib.compress(msgpack_serialize(x)) and reader msgpack_deserialize(zlib.decompress(b)) '
             'are inverse compositions; INSERT column order = CREATE TABLE order = reader SELECT lists; num_examples is '
             'computed with validation')
  check.rule('R-PAIR.pickle', 'save_state / load_state use pickle.dump / pickle.load on binary files')
  check.undecided('value equality for all dtypes / layouts; numpy and msgpack behaviour (value round trips)')
  m = repo.module(SER)
  pack = repo.func(SER, '_msgpack_ext_pack')
  unpack = repo.func(SER, '_msgpack_ext_unpack')
  enum = repo.cls(SER, '_MsgpackExtType')
  members = {}
  for st in enum.node.body:
    if isinstance(st, ast.Assign) and isinstance(st.targets[0], ast.Name) and isinstance(st.value, ast.Constant):
      members[st.targets[0].id] = st.value.value
  check.ob('R-SIB.ext', enum, f'codes {members}', len(set(members.values())) == len(members) and bool(members),
           'extension codes are pairwise distinct')
  pff, uff = FuncFlow.of(repo, pack), FuncFlow.of(repo, unpack)
  check.analysed(pack)
  check.analysed(unpack)
  # pack side: ExtType(_MsgpackExtType.X, helper(...))
  packed: Dict[str, ast.AST] = {}
  for _, c in pff.calls():
    if txt(c.func) == 'msgpack.ExtType' and len(c.args) == 2 and isinstance(c.args[0], ast.Attribute) and txt(c.args[0].value) == enum.name:
      packed[c.args[0].attr] = c.args[1]
  unpacked: Dict[str, ast.If] = {}
  for n in uff.cfg.nodes:
    if n.kind == 'if':
      t = n.ast.test
      if isinstance(t, ast.Compare) and isinstance(t.ops[0], ast.Eq) and isinstance(t.comparators[0], ast.Attribute) and txt(
          t.comparators[0].value) == enum.name and uff.param_of(t.left) == unpack.positional_params[0]:
        unpacked[t.comparators[0].attr] = n.ast
  # a decoder that dispatches some other way (a table of functions keyed by code, match / case) is not read by this rule
  dispatch_unknown = not unpacked or not packed
  for name in sorted(set(members) | set(packed) | set(unpacked)):
    ok = name in members and name in packed and name in unpacked
    if not ok and dispatch_unknown:
      ok = None
    check.ob('R-SIB.ext', pack, f'ext type {name}', ok,
             f'declared={name in members}, packed={name in packed}, unpacked={name in unpacked}: a value written with an '
             f'extension code nobody decodes (or vice versa) does not round-trip')
    if not ok:
      continue
    # helpers and tuple arity
    p_helper, p_arity = _pack_helper(repo, pff, packed[name])
    u_helper, u_arity = _unpack_helper(repo, uff, unpacked[name])
    pair_ok = _inverse_pair(p_helper, u_helper)
    check.ob('R-SIB.ext-pair', unpack, f'{name}: {p_helper} <-> {u_helper}', pair_ok and p_arity == u_arity and p_arity is not None,
             f'the unpacker must apply the inverse of the packer\'s helper; tuple arity written {p_arity} / read {u_arity}')
  check.floor('R-SIB.ext', 'extension types', len(members), 4)
  # order of the type tests: NumPy scalar types subclass the Python ones (np.complex128 is a complex, np.float64 a float), so the
  # np.generic arm has to be tried before the arm for native complex - otherwise such a scalar loses its dtype on the way
  order = []
  for n in pff.cfg.nodes:
    if n.kind == 'if':
      for c in ast.walk(n.ast.test):
        if isinstance(c, ast.Call) and pff.ext(c.func) == 'builtins.isinstance' and len(c.args) == 2:
          kinds = [pff.ext(t) or txt(t) for t in (c.args[1].elts if isinstance(c.args[1], ast.Tuple) else [c.args[1]])]
          order.append((n.ast.lineno, kinds))
  order.sort(key=lambda x: x[0])
  pos = {}
  for i, (_, kinds) in enumerate(order):
    for k in kinds:
      pos.setdefault(k, i)
  if 'numpy.generic' in pos and 'builtins.complex' in pos:
    check.ob('R-SIB.ext-order', pack, 'isinstance(x, np.generic) before isinstance(x, complex)', pos['numpy.generic'] < pos['builtins.complex'],
             'NumPy scalars are recognised before native complex numbers (np.complex128 is an instance of complex)', exact=True)
  _ndarray(check)
  _bytes_ndarray(check)
  _flags(check)
  _sqlite(check)
  _pickle(check)
  _checkpoint_raw(check)
  # npscalar unpack converts back to a scalar
  br = unpacked.get('npscalar')
  if br is not None:
    ok = any(isinstance(x, ast.Subscript) and isinstance(x.slice, ast.Tuple) and not x.slice.elts for x in ast.walk(br))
    check.ob('R-SIB.ext-pair', unpack, 'npscalar: ar[()]', ok, 'a NumPy scalar is restored as a scalar, not as a 0-d array')


def _pack_helper(repo, ff: FuncFlow, e: ast.AST) -> Tuple[str, Optional[int]]:
  if isinstance(e, ast.Call):
    r = ff.callee(e)
    if r.kind == 'func':
      hf = FuncFlow.of(repo, r.func)
      ar = None
      for _, c in hf.calls():
        if txt(c.func) == 'msgpack.packb' and c.args:
          for x in hf.expand(c.args[0]):
            if isinstance(x, ast.Tuple):
              ar = len(x.elts)
      return r.func.name, ar
    if txt(e.func) == 'msgpack.packb' and e.args and isinstance(e.args[0], ast.Tuple):
      return 'packb(tuple)', len(e.args[0].elts)
  return txt(e)[:30], None


def _unpack_helper(repo, ff: FuncFlow, br: ast.If) -> Tuple[str, Optional[int]]:
  for st in br.body:
    for c in ast.walk(st):
      if isinstance(c, ast.Call):
        r = ff.callee(c)
        if r.kind == 'func':
          hf = FuncFlow.of(repo, r.func)
          ar = None
          for n in hf.cfg.nodes:
            if n.kind == 'stmt' and isinstance(n.ast, ast.Assign) and isinstance(n.ast.value, ast.Call) and txt(
                n.ast.value.func) == 'msgpack.unpackb' and isinstance(n.ast.targets[0], ast.Tuple):
              ar = len(n.ast.targets[0].elts)
          return r.func.name, ar
        if txt(c.func) == 'msgpack.unpackb':
          # inline: complex(t[0], t[1])
          idx = {x.slice.value for x in ast.walk(br) if isinstance(x, ast.Subscript) and isinstance(x.slice, ast.Constant) and isinstance(x.slice.value, int)}
          return 'unpackb(tuple)', (max(idx) + 1) if idx else None
  return '?', None


def _inverse_pair(p: str, u: str) -> bool:
  if p == 'packb(tuple)' and u == 'unpackb(tuple)':
    return True
  # naming convention of the module: X_to_bytes <-> X_from_bytes (bytes_ndarray <-> object_ndarray)
  if p.endswith('_to_bytes') and u.endswith('_from_bytes'):
    a, b = p[:-len('_to_bytes')].lstrip('_'), u[:-len('_from_bytes')].lstrip('_')
    return a == b or {a, b} == {'bytes_ndarray', 'object_ndarray'}
  return False


def _ndarray(check: Check):
  repo = check.repo
  to = repo.func(SER, '_ndarray_to_bytes')
  fr = repo.func(SER, '_ndarray_from_bytes')
  tf, ff = FuncFlow.of(repo, to), FuncFlow.of(repo, fr)
  check.analysed(to)
  check.analysed(fr)
  p = to.positional_params[0]
  tpl = None
  for _, c in tf.calls():
    if txt(c.func) == 'msgpack.packb' and c.args:
      for x in tf.expand(c.args[0]):
        if isinstance(x, ast.Tuple):
          tpl = x
  if tpl is None or len(tpl.elts) != 3:
    check.inconclusive('R-PAIR.layout', to, 'packed tuple', 'expected (shape, dtype descriptor, bytes)')
    return
  shape_e, dtype_e, bytes_e = tpl.elts
  # C order on both sides
  order_w = isinstance(bytes_e, ast.Call) and isinstance(bytes_e.func, ast.Attribute) and bytes_e.func.attr == 'tobytes' and (
      (bytes_e.args and isinstance(bytes_e.args[0], ast.Constant) and bytes_e.args[0].value == 'C') or
      any(k.arg == 'order' and isinstance(k.value, ast.Constant) and k.value.value == 'C' for k in bytes_e.keywords) or
      (not bytes_e.args and not bytes_e.keywords))
  order_r = False
  for _, rv in ff.returns():
    for x in ast.walk(rv) if rv is not None else []:
      if isinstance(x, ast.Call) and isinstance(x.func, ast.Attribute) and x.func.attr == 'reshape':
        k = next((kw.value for kw in x.keywords if kw.arg == 'order'), None)
        order_r = k is None or (isinstance(k, ast.Constant) and k.value == 'C')
  check.ob('R-PAIR.layout', to, f'{txt(bytes_e)} / reshape(order=C)', order_w and order_r,
           f'bytes are written in C order (ok={order_w}) and read back in C order (ok={order_r}): Fortran / strided inputs '
           f'keep their element order')
  # shape written is the array's shape; same array object for all three
  same_arr = all(any(isinstance(n, ast.Name) and n.id == p for n in ast.walk(e)) for e in tpl.elts)
  check.ob('R-PAIR.layout', to, txt(tpl)[:70], same_arr and txt(shape_e).endswith('.shape'),
           'shape, dtype and bytes describe the same array')
  # byte order
  desc = txt(dtype_e)
  carries_order = desc.endswith('.dtype.str') or desc.endswith('.dtype.descr')
  normalised = False
  for nd in tf.cfg.nodes:
    if nd.ast is None:
      continue
    for x in nd.walk():
      if isinstance(x, ast.Attribute) and x.attr in ('isnative', 'newbyteorder', 'byteswap'):
        normalised = True
      if isinstance(x, ast.Call) and isinstance(x.func, ast.Attribute) and x.func.attr == 'astype':
        normalised = normalised or any('newbyteorder' in txt(a) or "'='" in txt(a) for a in x.args)
  # the normalisation must reach the tobytes() call: the array variable is rebound before it
  bn = tf.node_of(bytes_e)
  reb = False
  if normalised and bn is not None:
    arr_names = [n for n in ast.walk(bytes_e) if isinstance(n, ast.Name) and n.id == p]
    if arr_names:
      ds = tf.defs_for(arr_names[0])
      reb = any(d.kind == 'assign' and d.value is not None and ('newbyteorder' in txt(d.value) or 'byteswap' in txt(d.value)) for d in ds)
  # the conversion is made for the arrays that need it: the statement that swaps to native order runs where `isnative` is False
  if normalised and reb:
    from fjsa.flow import guards_of
    for nd in tf.cfg.nodes:
      st_ = nd.ast
      if nd.kind == 'stmt' and isinstance(st_, ast.Assign) and ('newbyteorder' in txt(st_.value) or 'byteswap' in txt(st_.value)):
        gs = [(t, pol) for t, pol in guards_of(tf, st_) if 'isnative' in txt(t)]
        if gs:
          wrong = any(pol and isinstance(t, ast.Attribute) for t, pol in gs)
          check.ob('R-PAIR.byteorder', to, f'{txt(st_)[:50]} when not isnative', not wrong,
                   'the byte-order conversion runs for non-native arrays (running it for native ones only leaves big-endian input '
                   'unconverted while its dtype name says native)', node=st_, exact=True)
  ok = carries_order or (normalised and reb)
  check.ob('R-PAIR.byteorder', to, f'dtype descriptor {desc}', ok,
           'the descriptor written is dtype.name, which does not record byte order, and the bytes are written as they are: a '
           'big-endian (byte-swapped) array deserialises to garbage values' if not ok else
           ('descriptor carries the byte order' if carries_order else 'array is converted to native byte order before its bytes are taken'))
  # reader: dtype from name, bytes via frombuffer
  fb = any(ff.ext(c.func) == 'numpy.frombuffer' for _, c in ff.calls())
  dn = any(wmean.repo_fn(ff, c) == f'{SER}:_dtype_from_name' for _, c in ff.calls())
  check.ob('R-PAIR.layout', fr, 'np.frombuffer(buffer, dtype=_dtype_from_name(name)).reshape(shape)', fb and dn,
           'the reader reinterprets the raw bytes with the dtype named by the writer')
  # the reader decodes the descriptor by *name* (so that bfloat16 and the other extension types resolve through jax): the writer
  # must write dtype.name - dtype.str of an extension type is a void code ('<V2') that names nothing
  if dn:
    check.ob('R-PAIR.descriptor', to, f'dtype descriptor {desc}', True if desc.endswith('.dtype.name') else (
        False if desc.endswith(('.dtype.str', '.dtype.descr', '.dtype.char', '.dtype.kind')) else None),
             'the writer records the dtype the way the reader looks it up (_dtype_from_name): by dtype.name', node=dtype_e)
  # structured / object dtypes rejected
  rej = any(isinstance(n.ast, ast.Raise) for n in tf.cfg.nodes if n.kind == 'stmt')
  check.ob('R-PAIR.flags', to, 'hasobject / isalignedstruct -> ValueError', rej, 'unsupported dtypes are rejected, not altered')


def _bytes_ndarray(check: Check):
  repo = check.repo
  to = repo.func(SER, '_bytes_ndarray_to_bytes')
  tf = FuncFlow.of(repo, to)
  check.analysed(to)
  isinst = any(isinstance(x, ast.Call) and txt(x.func) == 'isinstance' and len(x.args) == 2 and txt(x.args[1]) == 'bytes'
               for x in ast.walk(to.node))
  raises = any(isinstance(n.ast, ast.Raise) for n in tf.cfg.nodes if n.kind == 'stmt')
  check.ob('R-PAIR.flags', to, 'isinstance(flat[0], bytes) else ValueError', isinst and raises,
           'object arrays holding anything but bytes (e.g. str) are rejected')
  fr = repo.func(SER, '_object_ndarray_from_bytes')
  ok = any(isinstance(x, ast.Call) and ff_ext(repo, fr, x) == 'numpy.array' and any(k.arg == 'dtype' and txt(k.value) == 'object' for k in x.keywords)
           for x in ast.walk(fr.node)) and any(isinstance(x, ast.Attribute) and x.attr == 'reshape' for x in ast.walk(fr.node))
  check.ob('R-PAIR.layout', fr, 'np.array(flat, dtype=object).reshape(shape)', ok,
           'bytes objects are restored as an object array of the written shape (no trailing-zero stripping)')


def ff_ext(repo, fi, call):
  return FuncFlow.of(repo, fi).ext(call.func)


def _flags(check: Check):
  repo = check.repo
  ser = repo.func(SER, 'msgpack_serialize')
  des = repo.func(SER, 'msgpack_deserialize')
  for fi, fn, want in ((ser, 'msgpack.packb', {'default': '_msgpack_ext_pack', 'strict_types': 'True'}),
                       (des, 'msgpack.unpackb', {'ext_hook': '_msgpack_ext_unpack', 'raw': 'False'})):
    ff = FuncFlow.of(repo, fi)
    check.analysed(fi)
    ok = False
    got = {}
    for _, c in ff.calls():
      if txt(c.func) == fn:
        got = {k.arg: txt(k.value) for k in c.keywords}
        ok = all(got.get(k) == v for k, v in want.items())
    check.ob('R-PAIR.flags', fi, f'{fn}({got})', ok, f'required keyword arguments {want}: tuples must be rejected rather '
             f'than silently turned into lists, and the extension hooks must be installed on both sides')
  # raw=True in _ndarray_from_bytes <-> bytes literal comparison in _dtype_from_name
  fr = repo.func(SER, '_ndarray_from_bytes')
  dn = repo.func(SER, '_dtype_from_name')
  raw = None
  for x in ast.walk(fr.node):
    if isinstance(x, ast.Call) and txt(x.func) == 'msgpack.unpackb':
      k = next((kw.value for kw in x.keywords if kw.arg == 'raw'), None)
      raw = k.value if isinstance(k, ast.Constant) else None
  lit_bytes = any(isinstance(x, ast.Compare) and isinstance(x.comparators[0], ast.Constant) and isinstance(
      x.comparators[0].value, bytes) for x in ast.walk(dn.node))
  lit_str = any(isinstance(x, ast.Compare) and isinstance(x.comparators[0], ast.Constant) and isinstance(
      x.comparators[0].value, str) for x in ast.walk(dn.node))
  ok = (raw is True and lit_bytes and not lit_str) or (raw is False and lit_str and not lit_bytes)
  check.ob('R-PAIR.flags', dn, f'raw={raw} / bfloat16 literal is {"bytes" if lit_bytes else "str"}', ok,
           'the dtype name arrives as bytes iff raw=True: the bfloat16 special case must compare against the same type')


def _sqlite(check: Check):
  repo = check.repo
  # reading back: interleaved passes over the written file must not steal each other's rows
  from fjsa.props import c08
  c08._cursors(check, 'R-PAIR.cursor')
  # every client that was written can be looked up again, whatever its size (a stored size of 0 is a size, not "missing")
  c08._keyerror(check)
  c08._sql(check)
  rd = repo.func(SQL, 'decompress_and_deserialize')
  rff = FuncFlow.of(repo, rd)
  check.analysed(rd)
  ok_r = False
  for _, rv in rff.returns():
    if isinstance(rv, ast.Call) and wmean.repo_fn(rff, rv) == f'{SER}:msgpack_deserialize' and rv.args:
      for x in rff.expand(rv.args[0]):
        if isinstance(x, ast.Call) and rff.ext(x.func) == 'zlib.decompress' and rff.param_of(x.args[0]) == rd.positional_params[0]:
          ok_r = True
  bld = repo.cls(SQL, 'SQLiteFederatedDataBuilder')
  # a new dataset is written into a new table: CREATE TABLE without IF NOT EXISTS, so that building over an existing file fails instead
  # of reading back as the union of the old and the new clients
  import re as _re
  binit = bld.method('__init__')
  creates = [x for x in ast.walk(binit.node) if isinstance(x, ast.Constant) and isinstance(x.value, str) and _re.search(r'\bCREATE\s+TABLE\b', x.value, _re.I)]
  for x in creates:
    check.ob('R-SQL.create', binit, ' '.join(x.value.split())[:60], not _re.search(r'IF\s+NOT\s+EXISTS', x.value, _re.I),
             'the table is created unconditionally (an existing table is an error): what is read back is exactly what this builder wrote',
             node=x, exact=True)
  if not creates:
    check.ob('R-SQL.create', binit, 'CREATE TABLE', None, 'no CREATE TABLE statement found in the builder constructor')
  pp = bld.method('add_many').nested('prepare_parameters')
  pff = FuncFlow.of(repo, pp)
  check.analysed(pp)
  def compress_call(e):
    for v in pff.expand(e):
      if isinstance(v, ast.Call) and pff.ext(v.func) == 'zlib.compress' and v.args:
        for w in pff.expand(v.args[0]):
          if isinstance(w, ast.Call) and wmean.repo_fn(pff, w) == f'{SER}:msgpack_serialize' and w.args:
            return v, w
    return None
  ret_elts = []
  for _, rv in pff.returns():
    for y in pff.expand(rv):
      if isinstance(y, ast.Tuple):
        ret_elts = list(y.elts)
  wr = compress_call(ret_elts[1]) if len(ret_elts) == 3 else None
  ok_w = wr is not None
  check.ob('R-SIB.sqlite', pp, 'zlib.compress(msgpack_serialize(x)) / msgpack_deserialize(zlib.decompress(b))', ok_w and ok_r,
           f'writer (ok={ok_w}) and default reader (ok={ok_r}) are inverse compositions')
  # default parser of SQLiteFederatedData.new is that reader
  new = repo.cls(SQL, 'SQLiteFederatedData').method('new')
  d = new.param_default('parse_examples')
  check.ob('R-SIB.sqlite', new, f'parse_examples={txt(d) if d is not None else None}', d is not None and txt(d) == rd.name,
           'datasets are opened with the reader that inverts the builder by default')
  # column order: CREATE TABLE vs INSERT tuple vs SELECT lists
  init = bld.method('__init__')
  create = ''
  for x in ast.walk(init.node):
    if isinstance(x, ast.Constant) and isinstance(x.value, str) and 'CREATE TABLE' in x.value:
      create = x.value
  cols = re.findall(r'^\s*(\w+)\s+(?:BLOB|INTEGER|TEXT)', create, flags=re.M)
  p0 = pp.positional_params[0]
  def from_input(e, idx):
    return any(isinstance(x, ast.Subscript) and pff.param_of(x.value) == p0 and isinstance(x.slice, ast.Constant) and x.slice.value == idx
               for x in pff.expand(e))
  def is_count(e):
    for x in pff.expand(e):
      if isinstance(x, ast.Call) and wmean.repo_fn(pff, x) == 'fedjax.core.client_datasets:num_examples':
        return x
    return None
  cnt_call = is_count(ret_elts[2]) if len(ret_elts) == 3 else None
  ok_cols = (cols == ['client_id', 'data', 'num_examples'] and len(ret_elts) == 3 and from_input(ret_elts[0], 0) and
             wr is not None and cnt_call is not None)
  ins = any(isinstance(x, ast.Constant) and isinstance(x.value, str) and re.search(r'INSERT INTO federated_data VALUES \(\?, \?, \?\)', x.value)
            for x in ast.walk(bld.method('add_many').node))
  check.ob('R-SIB.sqlite', pp, f'CREATE TABLE {cols} / INSERT (id, data, count)', ok_cols and ins,
           'the positional INSERT supplies (client_id, data, num_examples) in the table\'s column order')
  # num_examples with validation, of the same examples that are serialised
  okn = False
  if cnt_call is not None:
    from fjsa.flow import bound_args
    ba = bound_args(pff, cnt_call)
    g_ = pff.callee(cnt_call)
    vd = ba.get('validate')
    if vd is None and g_.kind == 'func':
      vd = g_.func.param_default('validate')
    kw = {'validate': txt(vd) if vd is not None else 'True'}
    ex = ba.get(g_.func.positional_params[0]) if g_.kind == 'func' else (cnt_call.args[0] if cnt_call.args else None)
    ser_arg = wr[1].args[0] if wr is not None else None
    okn = (kw.get('validate', 'True') == 'True' and ex is not None and ser_arg is not None and from_input(ex, 1) and from_input(ser_arg, 1) and
           {txt(v) for v in pff.expand(ex)} == {txt(v) for v in pff.expand(ser_arg)})
  check.ob('R-SIB.sqlite', pp, 'num_examples(examples, validate=True)', okn,
           'the stored size is the validated row count of the same examples that are serialised')
  # what add_many inserted is committed before add_many returns: a reader opened right afterwards (or a builder used without
  # `with`) sees every client that was added
  for mname in ('add_many', 'add'):
    am = bld.methods.get(mname)
    if am is None:
      continue
    aff = FuncFlow.of(repo, am)
    ins_nodes = [n for n, c in aff.calls() if isinstance(c.func, ast.Attribute) and c.func.attr in ('execute', 'executemany') and c.args and any(
        isinstance(x, ast.Constant) and isinstance(x.value, str) and 'INSERT' in x.value.upper() for x in ast.walk(c.args[0]))]
    com_nodes = [n for n, c in aff.calls() if isinstance(c.func, ast.Attribute) and c.func.attr == 'commit']
    pd = aff.cfg.postdominators()
    for n in ins_nodes:
      ok = any(cn.id in pd.get(n.id, set()) for cn in com_nodes)
      check.ob('R-PAIR.commit', am, f'{mname}: INSERT ... ; commit()', ok,
               'every insertion is committed on all normal paths before the method returns (rows left in an open transaction are '
               'invisible to readers and lost if the builder is not closed through `with`)', node=n.ast)
  # readers select the columns they unpack
  sq = repo.cls(SQL, 'SQLiteFederatedData')
  for meth, want in (('client_sizes', 'client_id, num_examples'), ('_read_clients', 'client_id, data'),
                     ('client_size', 'num_examples'), ('get_client', 'data'), ('client_ids', 'client_id')):
    mm = sq.method(meth)
    sqls = [''.join(v.value for v in x.values if isinstance(v, ast.Constant)) if isinstance(x, ast.JoinedStr) else x.value
            for x in ast.walk(mm.node) if (isinstance(x, ast.JoinedStr) or (isinstance(x, ast.Constant) and isinstance(x.value, str)))
            and 'SELECT' in (''.join(v.value for v in x.values if isinstance(v, ast.Constant)) if isinstance(x, ast.JoinedStr) else x.value)]
    ok = any(re.search(r'SELECT\s+' + re.escape(want) + r'\s+FROM', s) for s in sqls)
    check.ob('R-SIB.sqlite', mm, f'SELECT {want}', ok, 'the reader selects exactly the columns it interprets', nontrivial=False)


def _pickle(check: Check, rule_prefix: str = 'R-PAIR'):
  repo = check.repo
  sv, ld = repo.func(SER, 'save_state'), repo.func(SER, 'load_state')
  sf, lf = FuncFlow.of(repo, sv), FuncFlow.of(repo, ld)
  check.analysed(sv)
  check.analysed(ld)
  def gfile_mode(ff):
    for _, c in ff.calls():
      if ext_path(ff, c) == 'tensorflow.io.gfile.GFile' and len(c.args) >= 2 and isinstance(c.args[1], ast.Constant):
        return c.args[1].value
    return None
  dump = any(ff_call(sf, c) == 'pickle.dump' and sf.param_of(c.args[0]) == sv.positional_params[0] for _, c in sf.calls())
  load = any(ff_call(lf, c) == 'pickle.load' for _, c in lf.calls())
  ok = dump and load and gfile_mode(sf) == 'wb' and gfile_mode(lf) == 'rb'
  check.ob(rule_prefix + '.pickle', sv, 'pickle.dump(state, f[wb]) / pickle.load(f[rb])', ok,
           f'state is pickled to a binary file and unpickled from a binary file (dump={dump}, load={load}, modes '
           f'{gfile_mode(sf)}/{gfile_mode(lf)})')
  # the path exists only once the dump has completed: write to a temporary name, rename on the normal path only
  from fjsa.rules.atomic import AtomicAnalysis
  for call, where in AtomicAnalysis(repo).renames_on_failure_path(sf):
    check.ob(rule_prefix + '.pickle-atomic', sv, txt(call)[:80], False,
             f'the rename that publishes the state file sits in a `{where}` block: it also runs after a failed dump', node=call, exact=True)
  summ = AtomicAnalysis(repo).summary(sv)
  how = summ.get(sv.positional_params[1]) if len(sv.positional_params) > 1 else None
  check.ob(rule_prefix + '.pickle-atomic', sv, f'save_state(state, {sv.positional_params[1] if len(sv.positional_params) > 1 else "path"})',
           how == 'atomic', f'the state file is published by rename after a complete dump, and never on the way out of a failed dump '
           f'(summary: {how}): a torn file under the final name cannot be told from a checkpoint')
  # load reads the path it is given
  okp = False
  for _, c in lf.calls():
    if ext_path(lf, c) == 'tensorflow.io.gfile.GFile' and c.args:
      okp = lf.param_of(c.args[0]) == ld.positional_params[0]
  check.ob(rule_prefix + '.pickle', ld, 'GFile(path, rb)', okp, 'load_state opens exactly the path it is asked for')
  # what is loaded is what is returned; what is given is what is dumped - no conversion on either side
  rets = [rv for _, rv in lf.returns() if rv is not None]
  raw = bool(rets) and all(any(isinstance(v, ast.Call) and ff_call(lf, v) == 'pickle.load' for v in lf.expand(rv)) for rv in rets)
  check.ob(rule_prefix + '.pickle-raw', ld, 'return pickle.load(f)', raw,
           'the unpickled object is returned as it is: a conversion (device_get, np.asarray, tree_map ...) changes leaf types (jax arrays '
           'become numpy arrays, weak types are lost) and a resumed run no longer computes what the uninterrupted run computed',
           node=rets[0] if rets else None)


def _checkpoint_raw(check: Check):
  """load_latest_checkpoint hands back what load_state returned, save_checkpoint hands save_state the state it was given."""
  repo = check.repo
  CK = 'fedjax.training.checkpoint'
  ld, sv = repo.func(CK, 'load_latest_checkpoint'), repo.func(CK, 'save_checkpoint')
  lf, sf = FuncFlow.of(repo, ld), FuncFlow.of(repo, sv)
  check.analysed(ld)
  check.analysed(sv)
  loads = [c for _, c in lf.calls() if wmean.repo_fn(lf, c) == f'{SER}:load_state']
  raw = False
  for _, v in lf.returns():
    if isinstance(v, ast.Tuple) and len(v.elts) == 2 and loads:
      raw = any(s is loads[0] for s in lf.expand(v.elts[0]))
  check.ob('R-PAIR.checkpoint-raw', ld, 'return load_state(path), round', raw and len(loads) == 1,
           'the restored state is the unpickled object itself: a conversion on the way (device_put, tree_map, asarray) silently changes leaf '
           'dtypes / types, so it no longer equals the saved state')
  saves = [c for _, c in sf.calls() if wmean.repo_fn(sf, c) == f'{SER}:save_state']
  ok_s = len(saves) == 1 and saves[0].args and sf.param_of(saves[0].args[0]) == sv.positional_params[1]
  check.ob('R-PAIR.checkpoint-raw', sv, 'save_state(state, path)', ok_s, 'the checkpoint holds the state that was passed in, unconverted')


def ff_call(ff: FuncFlow, c: ast.Call) -> Optional[str]:
  return ff.ext(c.func)
