"""C11 - stochastic quantizers: unbiased, bounded, finite and accounted (structural part)."""
from __future__ import annotations

import ast
from typing import Dict, List, Optional

from fjsa.flow import FuncFlow, call_args, same, txt
from fjsa.model import FuncInfo
from fjsa.report import Check
from fjsa.rules import entries, wmean
from fjsa.rules.atomic import same_value
from fjsa.rules.div import DivAnalysis
from fjsa.rules.keys import KeyAnalysis, check_function, check_aggregator_state_keys

MOD = 'fedjax.aggregators.compression'
WH = 'fedjax.aggregators.walsh_hadamard'
ROT = f'{WH}:structured_rotation_pytree'
INV = f'{WH}:inverse_structured_rotation_pytree'


def run(check: Check):
  repo = check.repo
  check.rule('R-DIV', 'every data-dependent division in compression.py is nan_to_num-wrapped, safe_div, floored or a '
             'self-normalisation of a non-negative vector')
  check.rule('R-KEY', 'keys are used linearly: a fresh key per round (state key is a split output), per client '
             '(hk.PRNGSequence of a split output zipped with the clients) and per leaf (split(rng, len(leaves)) zipped '
             'with the leaves)')
  check.rule('R-PAIR', 'rotation and inverse rotation receive the same key and the shapes returned by that rotation; the '
             'quantizer closures return the input weight unchanged; the bit counter is state.num_bits + new_bits with '
             'new_bits = bits_per_param * tree_size(agg) + 32 * 2 * num_leaves(agg)')
  check.rule('R-WMEAN', 'every compression aggregator returns tree_mean over the per-client (quantized tree, weight) pairs')
  check.rule('R-CLAMP', 'the rescaled vector is clamped to [0, 1] before it is compared with the uniform sample')
  check.undecided('unbiasedness (expectation over the key), grid membership and error bounds of the quantized values, '
                  'finiteness for huge dynamic range - statements about values/expectations')
  m = repo.module(MOD)
  dv = DivAnalysis(repo)
  n_div = 0
  for fi in m.functions():
    for s in dv.sites(fi):
      n_div += 1
      check.analysed(fi)
      ok = s.cls != 'DATA' or s.guard is not None
      check.ob('R-DIV', fi, txt(s.node)[:90], ok,
               f'denominator {txt(s.denom)[:40]} is {s.cls} ({s.why}); guard: {s.guard}' +
               ('' if ok else ' - an all-zero / constant input gives 0/0 = NaN'), node=s.node)
    for c in _safe_div_calls(repo, fi):
      n_div += 1
      check.ob('R-DIV', fi, txt(c)[:90], True, 'G1 util.safe_div', node=c)
  check.floor('R-DIV', 'division sites in compression.py', n_div, 8)
  # the bit accounting counts leaf arrays (two 32-bit scalars are sent per leaf), not top-level entries of the tree
  nl = repo.func(MOD, 'num_leaves')
  nff = FuncFlow.of(repo, nl)
  check.analysed(nl)
  ok_nl = False
  for _, rv in nff.returns():
    for v in nff.expand(rv):
      if isinstance(v, ast.Call) and nff.ext(v.func) == 'builtins.len' and v.args:
        ok_nl = any(isinstance(w, ast.Call) and nff.ext(w.func) in ('jax.tree_util.tree_leaves', 'jax.tree_leaves', 'jax.tree_util.tree_flatten')
                    and w.args and nff.param_of(w.args[0]) == nl.positional_params[0] for w in nff.deep_walk(v.args[0]))
  check.ob('R-PAIR.leaves', nl, 'len(tree_leaves(pytree))', ok_nl,
           'the number of leaves is counted over the flattened tree: len(pytree) counts top-level entries and under-counts nested '
           '(haiku-style) parameter trees')
  # the rotated quantizers rely on rotation and inverse rotation undoing each other (rules of C18)
  from fjsa.props import c18
  c18.run(check)
  # the mean every compression aggregator ends in: tree_mean's accumulation and its zero-guarded normaliser (shared with C07)
  from fjsa.props import c10
  c10.hidden_state(check, [m, repo.module('fedjax.aggregators.walsh_hadamard')], 'R-ACCOUNT.state')
  from fjsa.props import c07
  c07._tree_mean(check, repo.func('fedjax.core.tree_util', 'tree_mean'))
  c07.inverse_weight_rule(check)
  aggs = entries.find_aggregators(repo, [m])
  check.floor('R-KEY', 'compression aggregators', len(aggs), 4)
  ka = KeyAnalysis(repo)
  check_aggregator_state_keys(check, repo, aggs, 'R-KEY.K3')
  n_uses = 0
  for fi in m.functions():
    step_like = fi.name != 'init'
    n_uses += check_function(check, ka, fi, 'R-KEY', step_like=step_like)
  for q in ('structured_rotation_pytree', 'inverse_structured_rotation_pytree'):
    n_uses += check_function(check, ka, repo.func(WH, q), 'R-KEY')
  check.floor('R-KEY', 'key uses', n_uses, 20)
  for a in aggs:
    _aggregator(check, a)
  _per_leaf(check, m)
  _clamp(check)
  _terngrad(check)


def _safe_div_calls(repo, fi: FuncInfo):
  ff = FuncFlow.of(repo, fi)
  out = []
  for _, c in ff.calls():
    r = ff.callee(c)
    if r.kind == 'func' and r.func.module.name == 'fedjax.core.util' and r.func.name == 'safe_div':
      out.append(c)
  return out


def _aggregator(check: Check, a):
  repo = check.repo
  fi = a.apply
  ff = FuncFlow.of(repo, fi)
  check.analysed(fi)
  name = a.builder.name
  p_iter, p_state = fi.positional_params[:2]
  # ---- result is tree_mean of starmap(quantize, zip(clients, key sequence))
  mean_calls = [c for _, c in ff.calls() if wmean.repo_fn(ff, c) in wmean.MEAN]
  seen = set()
  mean_calls = [c for c in mean_calls if not (id(c) in seen or seen.add(id(c)))]
  if not mean_calls:
    check.ob('R-WMEAN', fi, 'tree_mean(...)', False, 'aggregator does not return a tree_mean of the quantized client trees')
    return
  agg_names = set()
  for c in mean_calls:
    st = ff.module.enclosing_stmt(c)
    if isinstance(st, ast.Assign) and isinstance(st.targets[0], ast.Name):
      agg_names.add(st.targets[0].id)
    chain_ok, qfn, keyseq = _pair_chain(ff, c.args[0] if c.args else None, p_iter)
    check.ob('R-WMEAN', fi, txt(c)[:80], chain_ok,
             'the mean is taken over starmap(quantize, zip(<clients argument>, <key sequence>)) (optionally through '
             'pass-through stages): every client contributes once, in order', node=c)
    if qfn is not None:
      ok, why = wmean.pair_function_passes_weight(ff, qfn, repo)
      if ok is None:
        check.inconclusive('R-PAIR.weight', qfn, 'return value', why)
      else:
        check.ob('R-PAIR.weight', qfn, 'return (quantized, weight)', ok, why)
      _quantize_fn(check, qfn)
    if keyseq is not None:
      okk = False
      for x in ff.expand(keyseq):
        if isinstance(x, ast.Call) and ff.ext(x.func) == 'haiku.PRNGSequence' and x.args and isinstance(x.args[0], ast.Name):
          ds = ff.defs_for(x.args[0])
          okk = bool(ds) and all(d.kind == 'assign' and isinstance(d.value, ast.Call) and ff.ext(d.value.func) == 'jax.random.split'
                                 for d in ds)
      check.ob('R-KEY.K4', fi, f'zip(clients, {txt(keyseq)})', okk,
               'per-client keys come from hk.PRNGSequence(<split output of this round\'s key>): distinct per client and per round',
               node=keyseq)
  # returned params is the mean
  for _, rv in ff.returns():
    if isinstance(rv, ast.Tuple) and len(rv.elts) == 2:
      okr = isinstance(rv.elts[0], ast.Name) and rv.elts[0].id in agg_names and all(
          d.value in mean_calls for d in ff.defs_for(rv.elts[0]))
      check.ob('R-WMEAN.return', fi, txt(rv), okr, 'the aggregated params returned are the tree_mean result', node=rv)
      # ---- bit accounting
      for s in ff.expand(rv.elts[1]):
        if isinstance(s, ast.Call) and ff.callee(s).kind == 'class':
          fields = [f for f, _, _ in ff.callee(s).cls.fields]
          b = call_args(s, fields)
          nb = b.get('num_bits')
          ok_acc = False
          new_bits = None
          if isinstance(nb, ast.BinOp) and isinstance(nb.op, ast.Add):
            for prev, inc in ((nb.left, nb.right), (nb.right, nb.left)):
              if isinstance(prev, ast.Attribute) and prev.attr == 'num_bits' and ff.param_of(prev.value) == p_state:
                ok_acc, new_bits = True, inc
          check.ob('R-PAIR.bits', fi, f'num_bits = {txt(nb)[:60] if nb is not None else "?"}', ok_acc,
                   'the reported bit count must be the previous count plus this round\'s bits', node=s)
          if new_bits is not None:
            _bits_formula(check, ff, fi, name, new_bits, agg_names)


def _pair_chain(ff: FuncFlow, e: Optional[ast.AST], p_iter: str):
  """Follows starmap stages back to zip(<clients param>, keyseq). Returns
  (ok, quantize FuncInfo, key sequence expr)."""
  if e is None:
    return False, None, None
  qfn = None
  cur = e
  for _ in range(6):
    xs = ff.expand(cur)
    # a name with several definitions (optional arithmetic-encoding stage): all must be starmaps over the previous stage
    nxt = None
    for x in xs:
      if isinstance(x, ast.Call) and ff.ext(x.func) == 'itertools.starmap' and len(x.args) == 2:
        r = ff.resolve(x.args[0])
        if r.kind == 'func':
          if _is_passthrough_stage(ff, r.func):
            nxt = x.args[1]
            continue
          qfn = r.func
          nxt = x.args[1]
      elif (isinstance(x, (ast.GeneratorExp, ast.ListComp)) and len(x.generators) == 1 and not x.generators[0].ifs and
            isinstance(x.generators[0].target, ast.Tuple) and isinstance(x.elt, ast.Call)):
        # (f(a, b) for a, b in SRC)  ==  starmap(f, SRC)
        g_ = x.generators[0]
        tg_ = [t.id for t in g_.target.elts if isinstance(t, ast.Name)]
        r = ff.resolve(x.elt.func)
        if r.kind == 'func' and [txt(a) for a in x.elt.args] == tg_ and not x.elt.keywords:
          if _is_passthrough_stage(ff, r.func):
            nxt = g_.iter
            continue
          qfn = r.func
          nxt = g_.iter
      elif isinstance(x, ast.Call) and ff.ext(x.func) == 'builtins.map' and len(x.args) == 3:
        # map(f, CLIENTS, KEYS)  ==  starmap(f, zip(CLIENTS, KEYS))
        r = ff.resolve(x.args[0])
        if r.kind == 'func' and not _is_passthrough_stage(ff, r.func):
          if ff.param_of(x.args[1]) == p_iter:
            return True, r.func, x.args[2]
          return False, r.func, None
      elif isinstance(x, ast.Call) and ff.ext(x.func) == 'builtins.zip' and len(x.args) == 2:
        if ff.param_of(x.args[0]) == p_iter:
          return qfn is not None, qfn, x.args[1]
        return False, qfn, None
      elif isinstance(x, ast.Name):
        nxt = x
    if nxt is None:
      return (False if _positively_wrong(ff, xs, p_iter) else None), qfn, None
    cur = nxt
  return None, qfn, None


def _positively_wrong(ff: FuncFlow, xs, p_iter: str) -> bool:
  """The stage that was not recognised pairs the clients with something that is certainly not a per-client key sequence, or drops the
  pairing altogether (the clients argument itself handed to tree_mean, a zip with the wrong first operand)."""
  for x in xs:
    if ff.param_of(x) == p_iter:
      return True
    if isinstance(x, ast.Call) and ff.ext(x.func) == 'builtins.zip' and x.args and ff.param_of(x.args[0]) != p_iter:
      return True
    # a stage that lets only some of the clients through
    if isinstance(x, ast.Call) and (ff.ext(x.func) or '') in ('itertools.islice', 'builtins.filter', 'itertools.filterfalse', 'itertools.takewhile',
                                                            'itertools.dropwhile', 'itertools.compress'):
      return True
    if isinstance(x, ast.Subscript) and isinstance(x.slice, ast.Slice):
      return True
    if isinstance(x, (ast.GeneratorExp, ast.ListComp)) and any(g.ifs for g in x.generators):
      return True
  return False


def _is_passthrough_stage(ff_outer: FuncFlow, fn: FuncInfo) -> bool:
  """def stage(params, weights): ...; return params, weights"""
  ff = FuncFlow.of(ff_outer.repo, fn)
  ps = fn.positional_params
  for _, rv in ff.returns():
    if not (isinstance(rv, ast.Tuple) and len(rv.elts) == len(ps) and all(
        ff.param_of(e) == p for e, p in zip(rv.elts, ps))):
      return False
  return bool(ff.returns())


def _quantize_fn(check: Check, fn: FuncInfo):
  """Rotation / inverse pairing inside a per-client quantize closure."""
  repo = check.repo
  ff = FuncFlow.of(repo, fn)
  check.analysed(fn)
  rots = [c for _, c in ff.calls() if wmean.repo_fn(ff, c) == ROT]
  invs = [c for _, c in ff.calls() if wmean.repo_fn(ff, c) == INV]
  seen = set()
  rots = [c for c in rots if not (id(c) in seen or seen.add(id(c)))]
  invs = [c for c in invs if not (id(c) in seen or seen.add(id(c)))]
  if not rots and not invs:
    return
  if len(rots) != 1 or len(invs) != 1:
    check.ob('R-PAIR.rotation', fn, 'rotation / inverse', False,
             f'{len(rots)} rotations but {len(invs)} inverse rotations: the aggregate would stay in the rotated basis')
    return
  rot, inv = rots[0], invs[0]
  rb = call_args(rot, ['params', 'rng'])
  ib = call_args(inv, ['params', 'rng', 'shapes'])
  key_ok = 'rng' in rb and 'rng' in ib and same(rb['rng'], ib['rng']) and _same_binding(ff, rb['rng'], ib['rng'])
  # shapes: second element of the rotation result
  shapes_ok = False
  st = ff.module.enclosing_stmt(rot)
  if isinstance(st, ast.Assign) and st.value is rot and isinstance(st.targets[0], ast.Tuple) and len(st.targets[0].elts) == 2:
    tshape = st.targets[0].elts[1]
    s = ib.get('shapes')
    if isinstance(s, ast.Name) and isinstance(tshape, ast.Name) and s.id == tshape.id:
      ds = ff.defs_for(s)
      shapes_ok = len(ds) == 1 and next(iter(ds)).target is tshape
    trot = st.targets[0].elts[0]
    # the tree given to the inverse derives from the rotated tree
    data_ok = isinstance(trot, ast.Name) and any(isinstance(x, ast.Name) and x.id == trot.id for x in ff.deep_walk(ib['params']))
  else:
    data_ok = False
  rn, inn = ff.node_of(rot), ff.node_of(inv)
  order_ok = rn is not None and inn is not None and (rn is inn or ff.cfg.dominates(rn, inn))
  check.ob('R-PAIR.rotation', fn, f'{txt(rot)[:50]} / {txt(inv)[:50]}', key_ok and shapes_ok and data_ok and order_ok,
           f'inverse rotation must use the same key (ok={key_ok}), the shapes returned by the rotation (ok={shapes_ok}) and '
           f'operate on the quantized rotated tree (ok={data_ok})', node=inv)


def _same_binding(ff: FuncFlow, a: ast.AST, b: ast.AST) -> bool:
  if isinstance(a, ast.Name) and isinstance(b, ast.Name):
    if ff.is_local(a):
      return ff.defs_for(a) == ff.defs_for(b)
    return True
  return True


def _bits_formula(check: Check, ff: FuncFlow, fi: FuncInfo, name: str, new_bits: ast.AST, agg_names):
  """new_bits = B * tree_size(agg) + 32 * (2 * num_leaves(agg))."""
  results = []
  for x in ff.expand(new_bits):
    if isinstance(x, ast.Constant) and x.value == 0:
      continue  # initial value before the encode_algorithm branch
    results.append(_match_bits(ff, x, agg_names, name))
  arith = [r for r in results if r is not None and r[0] == 'formula']
  other = [r for r in results if r is None]
  enc = [r for r in results if r is not None and r[0] == 'measured']
  ok = bool(arith) and all(r[1] for r in arith) and not other
  detail = '; '.join(r[2] for r in arith) + ('; ' + '; '.join(r[2] for r in enc) if enc else '')
  check.ob('R-PAIR.bits-formula', fi, f'new_bits in {name}', ok,
           f'bits per round must be bits_per_param * tree_size(aggregate) + 32 * 2 * num_leaves(aggregate): {detail or "unrecognised"}',
           node=new_bits)


def _match_bits(ff: FuncFlow, x: ast.AST, agg_names, name: str):
  if isinstance(x, ast.IfExp):
    # sum(total_bits) / len(total_bits) if len(total_bits) else 0.0  (measured arithmetic coding)
    return ('measured', True, 'arithmetic coding: mean of measured bits')
  if not (isinstance(x, ast.BinOp) and isinstance(x.op, ast.Add)):
    return None
  terms = [x.left, x.right]
  p_term = f_term = None
  B = None
  for t in terms:
    facs = _mul_factors(ff, t)
    kinds = [_factor_kind(ff, f, agg_names) for f in facs]
    if 'size' in kinds:
      p_term = t
      rest = [f for f, k in zip(facs, kinds) if k != 'size']
      B = rest
    elif 'leaves' in kinds:
      f_term = t
      consts = sorted(f.value for f, k in zip(facs, kinds) if k == 'const')
      if consts != [2, 32]:
        return ('formula', False, f'float term {txt(t)} is not 32 * 2 * num_leaves')
  if p_term is None or f_term is None:
    return ('formula', False, f'{txt(x)[:60]} lacks the parameter or the float term')
  btxt = ' * '.join(txt(b) for b in B) if B else '1'
  exp = {'uniform_stochastic_quantizer': 'log2(num_levels)', 'rotated_uniform_stochastic_quantizer': 'log2(num_levels)',
         'structured_drive_quantizer': '1', 'terngrad_quantizer': 'log2(3)'}.get(name)
  okB = False
  if exp == '1':
    okB = not B
  elif exp and len(B) == 1 and isinstance(B[0], ast.Call) and ff.ext(B[0].func) in ('math.log2', 'numpy.log2', 'jax.numpy.log2') and B[0].args:
    a = B[0].args[0]
    if exp == 'log2(3)':
      okB = isinstance(a, ast.Constant) and a.value == 3
    else:
      okB = isinstance(a, ast.Name) and a.id == 'num_levels' and not ff.is_local(a)
  return ('formula', okB, f'bits_per_param = {btxt} (documented: {exp})')


def _mul_factors(ff: FuncFlow, e: ast.AST) -> List[ast.AST]:
  out = []
  for x in ff.expand(e)[:1]:
    if isinstance(x, ast.BinOp) and isinstance(x.op, ast.Mult):
      out += _mul_factors(ff, x.left) + _mul_factors(ff, x.right)
    else:
      out.append(x)
  return out


def _factor_kind(ff: FuncFlow, f: ast.AST, agg_names) -> str:
  if isinstance(f, ast.Constant):
    return 'const'
  if isinstance(f, ast.Call):
    fn = wmean.repo_fn(ff, f)
    arg_ok = f.args and isinstance(f.args[0], ast.Name) and f.args[0].id in agg_names
    if fn == 'fedjax.core.tree_util:tree_size' and arg_ok:
      return 'size'
    if fn == f'{MOD}:num_leaves' and arg_ok:
      return 'leaves'
  return 'other'


def _clamp(check: Check):
  repo = check.repo
  for q in ('binary_stochastic_quantize', 'uniform_stochastic_quantize'):
    fi = repo.func(MOD, q)
    ff = FuncFlow.of(repo, fi)
    check.analysed(fi)
    # comparisons `rand > t`
    n = 0
    for nd in ff.cfg.nodes:
      if nd.ast is None:
        continue
      for x in nd.walk():
        if isinstance(x, ast.Compare) and len(x.ops) == 1 and isinstance(x.ops[0], (ast.Gt, ast.Lt, ast.GtE, ast.LtE)):
          sides = [x.left, x.comparators[0]]
          rand = [s for s in sides if any(isinstance(v, ast.Call) and (ff.ext(v.func) or '').startswith('jax.random.') for v in ff.expand(s))]
          if len(rand) != 1:
            continue
          other = [s for s in sides if s is not rand[0]][0]
          n += 1
          ok = _clamped(ff, other)
          check.ob('R-CLAMP', fi, txt(x), ok,
                   'the probability compared with the uniform sample must derive from a value clamped into [0, 1] '
                   '(maximum(0, minimum(v, 1))) - otherwise out-of-range inputs leave the grid', node=x)
    check.floor('R-CLAMP', f'threshold comparisons in {q}', n, 1)


def _clamped(ff: FuncFlow, e: ast.AST, depth: int = 4) -> bool:
  """e is clamp(v) or computed only from clamped values (threshold from v, floor, ceil)."""
  if depth == 0:
    return False
  for x in ff.expand(e):
    if _is_clamp(ff, x):
      continue
    if isinstance(x, ast.Call) and ff.ext(x.func) in ('jax.numpy.nan_to_num',) and x.args:
      if all(_clamped(ff, n, depth - 1) for n in _leaf_names(x.args[0])):
        continue
    return False
  return True


def _leaf_names(e: ast.AST):
  return [n for n in ast.walk(e) if isinstance(n, ast.Name) and isinstance(n.ctx, ast.Load) and n.id not in ('jnp', 'num_levels')]


def _is_clamp(ff: FuncFlow, x: ast.AST) -> bool:
  if isinstance(x, ast.Call) and ff.ext(x.func) in ('jax.numpy.maximum',) and len(x.args) == 2:
    lo = [a for a in x.args if isinstance(a, ast.Constant) and a.value == 0]
    inner = [a for a in x.args if isinstance(a, ast.Call) and ff.ext(a.func) in ('jax.numpy.minimum',)]
    if lo and inner and any(isinstance(a, ast.Constant) and a.value == 1 for a in inner[0].args):
      return True
  if isinstance(x, ast.Call) and ff.ext(x.func) in ('jax.numpy.minimum',) and len(x.args) == 2:
    hi = [a for a in x.args if isinstance(a, ast.Constant) and a.value == 1]
    inner = [a for a in x.args if isinstance(a, ast.Call) and ff.ext(a.func) in ('jax.numpy.maximum',)]
    if hi and inner and any(isinstance(a, ast.Constant) and a.value == 0 for a in inner[0].args):
      return True
  if isinstance(x, ast.Call) and ff.ext(x.func) == 'jax.numpy.clip' and len(x.args) == 3:
    return isinstance(x.args[1], ast.Constant) and x.args[1].value == 0 and isinstance(x.args[2], ast.Constant) and x.args[2].value == 1
  # values derived from a clamped v by floor/ceil on the level grid stay in [0, 1]
  if isinstance(x, ast.BinOp) and isinstance(x.op, ast.Div) and isinstance(x.left, ast.Call) and ff.ext(x.left.func) in (
      'jax.numpy.floor', 'jax.numpy.ceil'):
    return all(_clamped(ff, n) for n in _leaf_names(x.left))
  return False


def _terngrad(check: Check):
  repo = check.repo
  fi = repo.func(MOD, 'terngrad_quantize')
  ff = FuncFlow.of(repo, fi)
  check.analysed(fi)
  consts = [x.value for n in ff.cfg.nodes if n.ast is not None for x in n.walk()
            if isinstance(x, ast.Constant) and isinstance(x.value, float) and x.value not in (0.0, 1.0)]
  ok = len(set(consts)) == 1 and len(consts) >= 2 and consts[0] == 2.5
  check.ob('R-PAIR.terngrad', fi, f'clip constants {consts}', ok,
           'the clipping threshold and the clipped magnitude use the same documented constant 2.5 sigma')
  # returns binary(|v|, rng, 0, amax|v|) * sign(v)
  okr = False
  for _, rv in ff.returns():
    if isinstance(rv, ast.BinOp) and isinstance(rv.op, ast.Mult):
      sides = [rv.left, rv.right]
      q = [s for s in sides if isinstance(s, ast.Call) and wmean.repo_fn(ff, s) == f'{MOD}:binary_stochastic_quantize']
      sg = [s for s in sides if isinstance(s, ast.Call) and ff.ext(s.func) == 'jax.numpy.sign']
      if q and sg:
        b = call_args(q[0], ['v', 'rng', 'v_min', 'v_max'])
        lo_ok = isinstance(b.get('v_min'), ast.Constant) and b['v_min'].value == 0
        v_ok = isinstance(b.get('v'), ast.Call) and ff.ext(b['v'].func) == 'jax.numpy.abs'
        hi = b.get('v_max')
        hi_ok = isinstance(hi, ast.Call) and ff.ext(hi.func) in ('jax.numpy.amax', 'jax.numpy.max') and hi.args and isinstance(
            hi.args[0], ast.Call) and ff.ext(hi.args[0].func) == 'jax.numpy.abs'
        okr = lo_ok and v_ok and hi_ok
  check.ob('R-PAIR.terngrad', fi, 'binary(|v|, rng, 0, max|v|) * sign(v)', okr,
           'ternary levels {-s, 0, +s}: magnitudes quantized between 0 and the largest clipped magnitude, sign restored')


def _per_leaf(check: Check, m):
  """<quantize>_pytree applies <quantize> to every leaf on its own (own range, own key): the leaf-level function is called inside the
  loop / comprehension over the leaves with the loop's leaf as its operand - not once on all leaves concatenated, which would put every
  leaf on the grid of the whole tree (a constant or zero leaf is then no longer returned unchanged)."""
  repo = check.repo
  for fi in m.functions():
    if not fi.name.endswith('_pytree') or fi.scope.parent.kind != 'module':
      continue
    base = fi.name[:-len('_pytree')]
    ff = FuncFlow.of(repo, fi)
    calls = [c for _, c in ff.calls() if wmean.repo_fn(ff, c) == f'{m.name}:{base}']
    seen = set()
    calls = [c for c in calls if not (id(c) in seen or seen.add(id(c)))]
    if not calls:
      continue
    for c in calls:
      lp = wmean._loop_of(ff, c)
      comp = None
      cur = ff.module.parent_of.get(c)
      while cur is not None and cur is not fi.node:
        if isinstance(cur, (ast.ListComp, ast.GeneratorExp)):
          comp = cur
          break
        cur = ff.module.parent_of.get(cur)
      targets = set()
      if lp is not None and isinstance(lp, ast.For):
        targets = {x.id for x in ast.walk(lp.target) if isinstance(x, ast.Name)}
      if comp is not None:
        targets |= {x.id for g in comp.generators for x in ast.walk(g.target) if isinstance(x, ast.Name)}
      per_leaf = bool(c.args) and isinstance(c.args[0], ast.Name) and c.args[0].id in targets
      fused = bool(c.args) and any(isinstance(y, ast.Call) and (ff.ext(y.func) or '').split('.')[-1] in ('concatenate', 'hstack', 'ravel_pytree', 'stack')
                                   for v in ff.expand(c.args[0]) for y in ff.deep_walk(v))
      check.ob('R-PAIR.per-leaf', fi, txt(c)[:70], True if per_leaf else (False if fused or (lp is None and comp is None) else None),
               f'{base} is applied to each leaf separately' if per_leaf else
               f'{base} is applied once to several leaves together: they share one quantization range / one key', node=c, exact=fused)

