"""C06 - masked gradients and losses ignore padding and batch geometry (structural part)."""
from __future__ import annotations

import ast
from typing import List, Optional, Tuple

from fjsa.flow import FuncFlow, call_args, guards_of, same, txt
from fjsa.model import FuncInfo
from fjsa.report import Check
from fjsa.rules import entries, maskflow, wmean
from fjsa.rules.atomic import same_value
from fjsa.rules.div import DivAnalysis

MODELS = 'fedjax.core.models'
SAFE_DIV = 'fedjax.core.util:safe_div'


def run(check: Check):
  repo = check.repo
  check.rule('R-MASK.consumer', 'every stream of padded batches (ClientDataset.padded_batch, padded_batch_client_datasets, '
             'padded_batch_federated_data) flows only into step functions that read the example mask themselves or hand the '
             'batch to a callee that does')
  check.rule('R-MASK.pair', 'inside a mask-aware function the per-example values are multiplied / vdot-ed with the batch\'s own '
             'mask before any reduction, and the normalising count is a reduction of that same mask (vdot(loss, mask)/sum(mask); '
             'segment_sum(loss*mask, ids, n)/segment_sum(mask, ids, n) with the same ids and n)')
  check.rule('R-DIV', 'mask-weighted means use util.safe_div (no real example => 0, not NaN)')
  check.rule('R-REG', 'the regulariser is added exactly once per differentiated/finalised loss; a step that accumulates a sum '
             'across batches must not add it per batch')
  check.undecided('numerical equality of padded and unpadded gradients/losses')
  triples = entries.find_triples(repo)
  ma = maskflow.MaskAwareness(repo)
  n_prod = 0
  for p in maskflow.find_producers(repo, repo.library_modules()):
    ok, why = maskflow.consumer_of(repo, p, triples, ma)
    n_prod += 1
    where = p.fi or p.module
    if ok is None:
      check.inconclusive('R-MASK.consumer', where, txt(p.call)[:70], why, node=p.call)
    else:
      check.ob('R-MASK.consumer', where, txt(p.call)[:70], ok, why, node=p.call)
  check.floor('R-MASK.consumer', 'padded batch producers', n_prod, 11)
  # gradient functions handed to mask-consuming builders are models.grad results
  _grad_fn_binding(check)
  _scalar_loss(check)
  _average_loss(check)
  _finalize(check)
  _domain_metrics(check)
  _domain_mean(check)
  _full_batch_gradient(check)
  _regularizer_sites(check)


def _grad_fn_binding(check: Check):
  """mime/mime_lite hand models.grad(...) (mask aware) to create_grads_for_each_client."""
  repo = check.repo
  target = repo.func('fedjax.algorithms.mime', 'create_grads_for_each_client')
  n = 0
  for m in entries.modules_under(repo, 'fedjax.algorithms'):
    for fi in m.functions():
      ff = FuncFlow.of(repo, fi)
      for _, c in ff.calls():
        r = ff.callee(c)
        if r.kind == 'func' and r.func is target and c.args:
          n += 1
          ok = False
          for x in ff.expand(c.args[0]):
            if isinstance(x, ast.Call):
              rr = ff.callee(x)
              ok = rr.kind == 'func' and rr.func.module.name == MODELS and rr.func.name in ('grad', 'model_grad')
          check.ob('R-MASK.consumer', fi, txt(c), ok,
                   'the gradient used on padded batches must be the mask-aware models.grad / model_grad', node=c)
  check.floor('R-MASK.consumer', 'full-batch gradient builders', n, 2)


def _mask_var(ff: FuncFlow, batch_param: str) -> Optional[str]:
  for ds in ff.rd.defs_at.values():
    for d in ds:
      v = d.value
      if d.kind == 'assign' and v is not None:
        for x in ast.walk(v):
          if isinstance(x, ast.Subscript) and ff.param_of(x.value) == batch_param and maskflow.is_mask_key(ff, x.slice):
            return d.name
  return None


def _is_mask_reduction(ff: FuncFlow, e: ast.AST, mask: str) -> bool:
  for x in ff.expand(e):
    if isinstance(x, ast.Call) and ff.ext(x.func) == 'jax.numpy.sum' and x.args and isinstance(x.args[0], ast.Name) and x.args[0].id == mask:
      continue
    return False
  return True


def _is_masked_sum(ff: FuncFlow, e: ast.AST, loss: str, mask: str) -> bool:
  """vdot(loss, mask) / vdot(mask, loss) / sum(loss * mask)."""
  for x in ff.expand(e):
    if isinstance(x, ast.Call) and ff.ext(x.func) in ('jax.numpy.vdot', 'jax.numpy.dot') and len(x.args) == 2:
      names = {a.id for a in x.args if isinstance(a, ast.Name)}
      if names == {loss, mask}:
        continue
    if isinstance(x, ast.Call) and ff.ext(x.func) == 'jax.numpy.sum' and x.args and isinstance(x.args[0], ast.BinOp) and isinstance(
        x.args[0].op, ast.Mult):
      names = {a.id for a in (x.args[0].left, x.args[0].right) if isinstance(a, ast.Name)}
      if names == {loss, mask}:
        continue
    return False
  return True


def _scalar_loss(check: Check):
  repo = check.repo
  fi = repo.func(MODELS, 'grad').nested('scalar_loss')
  ff = FuncFlow.of(repo, fi)
  check.analysed(fi)
  p_params, p_batch, p_rng = fi.positional_params[:3]
  mask = _mask_var(ff, p_batch)
  loss_name = None
  for ds in ff.rd.defs_at.values():
    for d in ds:
      if d.kind == 'assign' and isinstance(d.value, ast.Call) and isinstance(d.value.func, ast.Name) and d.value.func.id == 'per_example_loss':
        loss_name = d.name
        okc = [ff.param_of(a) for a in d.value.args] == [p_params, p_batch, p_rng]
        check.ob('R-MASK.pair', fi, txt(d.value), okc, 'per-example losses of this batch at these params with this key')
  ok_mask = False
  why = 'mask arm not recognised'
  if mask and loss_name:
    for _, c in ff.calls():
      if wmean.repo_fn(ff, c) == SAFE_DIV and len(c.args) == 2:
        num_ok = _is_masked_sum(ff, c.args[0], loss_name, mask)
        den_ok = _is_mask_reduction(ff, c.args[1], mask)
        g = guards_of(ff, c)
        arm_ok = any(isinstance(t, ast.Compare) and isinstance(t.ops[0], ast.In) and maskflow.is_mask_key(ff, t.left) and pol for t, pol in g)
        ok_mask = num_ok and den_ok and arm_ok
        why = f'numerator masked={num_ok}, count is sum(mask)={den_ok}, on the mask arm={arm_ok}'
  check.ob('R-MASK.pair', fi, 'safe_div(vdot(loss, mask), sum(mask))', ok_mask,
           f'on padded batches the loss is the mask-weighted mean over real rows only: {why}')
  # unmasked arm: plain mean
  ok_plain = False
  for _, c in ff.calls():
    if ff.ext(c.func) == 'jax.numpy.mean' and c.args and isinstance(c.args[0], ast.Name) and c.args[0].id == loss_name:
      g = guards_of(ff, c)
      ok_plain = any(isinstance(t, ast.Compare) and isinstance(t.ops[0], ast.In) and not pol for t, pol in g)
  check.ob('R-MASK.pair', fi, 'jnp.mean(loss) on the unmasked arm only', ok_plain,
           'the plain mean is only used when the batch carries no mask')
  _reg_once(check, fi, ff, 'loss')
  # grad() differentiates scalar_loss w.r.t. params
  g = repo.func(MODELS, 'grad')
  gff = FuncFlow.of(repo, g)
  okg = False
  for _, rv in gff.returns():
    for x in ast.walk(rv) if rv is not None else []:
      if isinstance(x, ast.Call) and gff.ext(x.func) == 'jax.grad' and x.args and isinstance(x.args[0], ast.Name) and x.args[0].id == 'scalar_loss':
        an = next((k.value for k in x.keywords if k.arg == 'argnums'), None)
        okg = an is None or (isinstance(an, ast.Constant) and an.value == 0)
  check.ob('R-MASK.pair', g, 'jax.grad(scalar_loss)', okg, 'the gradient is taken of the masked scalar loss w.r.t. params')


def _reg_once(check: Check, fi: FuncInfo, ff: FuncFlow, what: str):
  """regularizer(params) is called exactly once on the `is not None` arm, never on the other."""
  calls = [c for _, c in ff.calls() if isinstance(c.func, ast.Name) and c.func.id == 'regularizer']
  seen = set()
  calls = [c for c in calls if not (id(c) in seen or seen.add(id(c)))]
  if not calls:
    check.ob('R-REG', fi, 'regularizer(params)', False, f'the regulariser never enters the {what}')
    return
  ok = len(calls) == 1
  c = calls[0]
  g = guards_of(ff, c)
  arm = any(isinstance(t, ast.Compare) and isinstance(t.ops[0], ast.Is) and isinstance(t.left, ast.Name) and t.left.id == 'regularizer' and not pol
            for t, pol in g)
  in_loop = wmean._loop_of(ff, c) is not None
  st = ff.module.enclosing_stmt(c)
  additive = isinstance(st, ast.AugAssign) and isinstance(st.op, ast.Add) or (isinstance(st, ast.Assign) and isinstance(
      st.value, ast.BinOp) and isinstance(st.value.op, ast.Add))
  check.ob('R-REG', fi, txt(st)[:70], ok and arm and not in_loop and additive,
           f'exactly one additive regulariser term on the `regularizer is not None` arm (sites={len(calls)}, guarded={arm}, '
           f'in loop={in_loop}, additive={additive})', node=c)
  # the term is added to the reduced scalar: it must not flow into a (masked) reduction afterwards
  tgt = st.target if isinstance(st, ast.AugAssign) else (st.targets[0] if isinstance(st, ast.Assign) else None)
  if isinstance(tgt, ast.Name):
    st_node = ff.node_of(st)
    REDUCE = {'jax.numpy.vdot', 'jax.numpy.sum', 'jax.numpy.mean', 'jax.numpy.dot', 'jax.numpy.average', 'jax.numpy.nanmean'}
    bad = []
    for n2, c2 in ff.calls():
      if ff.ext(c2.func) in REDUCE or wmean.repo_fn(ff, c2) == SAFE_DIV:
        for a in c2.args:
          for x in ast.walk(a):
            if isinstance(x, ast.Name) and x.id == tgt.id and isinstance(x.ctx, ast.Load) and any(d.node is st_node for d in ff.defs_for(x)):
              bad.append(c2)
    check.ob('R-REG.reduce', fi, f'{tgt.id} (with the regulariser) -> reductions', not bad,
             'the regulariser is a per-batch scalar: once it has been added, the value must not go through the masked sum / mean '
             '(it would be weighted by the number of real rows, and vanish on a fully padded batch)' +
             (f': flows into {txt(bad[0])[:60]}' if bad else ''), node=bad[0] if bad else None)


def _average_loss(check: Check):
  repo = check.repo
  fi = repo.func(MODELS, '_evaluate_average_loss_step')
  ff = FuncFlow.of(repo, fi)
  check.analysed(fi)
  ps = fi.positional_params
  p_batch = ps[2]
  mask = _mask_var(ff, p_batch)
  loss_name = None
  for ds in ff.rd.defs_at.values():
    for d in ds:
      if d.kind == 'assign' and isinstance(d.value, ast.Call) and ff.param_of(d.value.func) == ps[0]:
        loss_name = d.name
  augs = [n.ast for n in ff.cfg.nodes if n.kind == 'stmt' and isinstance(n.ast, ast.AugAssign) and isinstance(n.ast.op, ast.Add)]
  seen = set()
  augs = [a for a in augs if not (id(a) in seen or seen.add(id(a)))]
  m_num = m_den = p_num = p_den = False
  for a in augs:
    g = guards_of(ff, a)
    on_mask = any(isinstance(t, ast.Compare) and isinstance(t.ops[0], ast.In) and pol for t, pol in g)
    off_mask = any(isinstance(t, ast.Compare) and isinstance(t.ops[0], ast.In) and not pol for t, pol in g)
    tgt = a.target.id if isinstance(a.target, ast.Name) else None
    if on_mask and mask and loss_name:
      if tgt == ps[4] and _is_masked_sum(ff, a.value, loss_name, mask):
        m_num = True
      if tgt == ps[5] and _is_mask_reduction(ff, a.value, mask):
        m_den = True
    if off_mask and loss_name:
      if tgt == ps[4] and isinstance(a.value, ast.Call) and ff.ext(a.value.func) == 'jax.numpy.sum' and txt(a.value.args[0]) == loss_name:
        p_num = True
      if tgt == ps[5] and isinstance(a.value, ast.Call) and ff.ext(a.value.func) == 'builtins.len' and txt(a.value.args[0]) == loss_name:
        p_den = True
  check.ob('R-MASK.pair', fi, 'accum += vdot(mask, loss); num += sum(mask)', m_num and m_den,
           f'on padded batches loss sum and example count are both reductions with the same mask (sum={m_num}, count={m_den})')
  check.ob('R-MASK.pair', fi, 'accum += sum(loss); num += len(loss)', p_num and p_den,
           f'without a mask every row counts (sum={p_num}, count={p_den})')
  # no regulariser inside the per-batch step
  regs = [c for _, c in ff.calls() if isinstance(c.func, ast.Name) and 'regular' in c.func.id]
  check.ob('R-REG', fi, 'no regulariser in the per-batch step', not regs,
           'the regulariser must be added once at finalisation, not per batch')


def _finalize(check: Check):
  repo = check.repo
  fi = repo.func(MODELS, '_finalize_average_loss')
  ff = FuncFlow.of(repo, fi)
  check.analysed(fi)
  ps = fi.positional_params
  ok = False
  for ds in ff.rd.defs_at.values():
    for d in ds:
      v = d.value
      if d.kind == 'assign' and isinstance(v, ast.Call) and wmean.repo_fn(ff, v) == SAFE_DIV and len(v.args) == 2:
        ok = ff.param_of(v.args[0]) == ps[2] and ff.param_of(v.args[1]) == ps[3]
  check.ob('R-DIV', fi, 'safe_div(accum_loss, num_examples)', ok, 'a client without real examples gets average loss 0, not NaN')
  _reg_once(check, fi, ff, 'average loss')
  # every way out of the public evaluator goes through the finalizer (which adds the regulariser and guards the division): an early
  # return for "no examples" would drop the regulariser term
  for owner in (repo.func(MODELS, 'evaluate_average_loss'),):
    off = FuncFlow.of(repo, owner)
    check.analysed(owner)
    for _, rv in off.returns():
      vals = off.expand(rv) if rv is not None else []
      through = bool(vals) and all(isinstance(v, ast.Call) and wmean.repo_fn(off, v) == f'{MODELS}:_finalize_average_loss' for v in vals)
      check.ob('R-REG.final', owner, 'return ' + (txt(rv)[:70] if rv is not None else ''), through,
               'every result of evaluate_average_loss is produced by _finalize_average_loss(params, regularizer, accum_loss, num_examples)',
               node=rv)
  dv = DivAnalysis(repo)
  for f2 in (fi, repo.func(MODELS, 'grad').nested('scalar_loss'), repo.func(MODELS, '_evaluate_average_loss_step')):
    for s in dv.sites(f2):
      check.ob('R-DIV', f2, txt(s.node), s.cls != 'DATA' or s.guard is not None,
               f'raw division with denominator {txt(s.denom)} ({s.cls}); guard: {s.guard}', node=s.node)


def _domain_metrics(check: Check):
  repo = check.repo
  builder = repo.func('fedjax.algorithms.agnostic_fed_avg', 'create_domain_metrics_for_each_client')
  step = builder.nested('client_step')
  ff = FuncFlow.of(repo, step)
  check.analysed(step)
  p_state, p_batch = step.positional_params[:2]
  segs = [c for _, c in ff.calls() if ff.ext(c.func) == 'jax.ops.segment_sum']
  seen = set()
  segs = [c for c in segs if not (id(c) in seen or seen.add(id(c)))]

  def mentions_mask(e):
    return any(isinstance(x, ast.Subscript) and ff.param_of(x.value) == p_batch and maskflow.is_mask_key(ff, x.slice) for x in ff.deep_walk(e))

  def mentions_loss(e):
    return any(isinstance(x, ast.Call) and isinstance(x.func, ast.Name) and x.func.id == 'per_example_loss' for x in ff.deep_walk(e))
  if len(segs) != 2:
    check.inconclusive('R-MASK.pair', step, 'segment sums', f'{len(segs)} segment_sum calls (expected the loss sum and the count)')
    return
  loss_seg = next((c for c in segs if mentions_loss(c.args[0])), None)
  cnt_seg = next((c for c in segs if c is not loss_seg), None)
  if loss_seg is None or cnt_seg is None:
    check.inconclusive('R-MASK.pair', step, 'segment sums', 'cannot tell the loss sum from the count')
    return
  same_ids = same(loss_seg.args[1], cnt_seg.args[1]) and same(loss_seg.args[2], cnt_seg.args[2])
  masked = mentions_mask(loss_seg.args[0])
  counted = mentions_mask(cnt_seg.args[0]) and not mentions_loss(cnt_seg.args[0])
  check.ob('R-MASK.pair', step, 'segment_sum(loss * mask, ids, n) / segment_sum(mask, ids, n)', same_ids and masked and counted,
           f'per-domain loss sums and counts ignore padded rows and agree on the segmentation: loss multiplied by the batch mask before the '
           f'segment sum={masked}; the count is the segment sum of the mask={counted}; same ids and number of segments={same_ids}')


def _domain_mean(check: Check):
  """AgnosticFedAvg: the per-domain mean loss divides the masked loss sums by the masked counts with a zero guard."""
  repo = check.repo
  su = repo.func('fedjax.algorithms.agnostic_fed_avg', 'agnostic_federated_averaging').nested('server_update')
  ff = FuncFlow.of(repo, su)
  check.analysed(su)
  dv = DivAnalysis(repo)
  for s_ in dv.sites(su):
    check.ob('R-DIV', su, '/ ' + txt(s_.denom)[:60], s_.cls != 'DATA' or s_.guard is not None,
             f'{txt(s_.node)[:70]}: per-domain counts can be zero (a domain without real examples this round): denominator is '
             f'{s_.cls}; guard: {s_.guard}', node=s_.node)
  ok = False
  for _, c in ff.calls():
    if wmean.repo_fn(ff, c) == SAFE_DIV and len(c.args) == 2:
      ok = ff.param_of(c.args[0]) is not None and ff.param_of(c.args[1]) is not None
  check.ob('R-DIV', su, 'safe_div(sum_domain_loss, sum_domain_num)', ok,
           'a domain without real examples gets mean loss 0 instead of 0/0 = NaN (which would poison every domain weight)')


def _full_batch_gradient(check: Check):
  """Mime / MimeLite: numerator and denominator of the full-batch gradient are the two components of one tree_sum of the
  per-client (count-weighted gradient sum, count) pairs, unmodified."""
  repo = check.repo
  n = 0
  for modname in ('fedjax.algorithms.mime', 'fedjax.algorithms.mime_lite'):
    for a in entries.find_algorithms(repo, [repo.module(modname)]):
      fi = a.apply
      ff = FuncFlow.of(repo, fi)
      for _, c in ff.calls():
        if wmean.repo_fn(ff, c) not in wmean.INV or len(c.args) < 2:
          continue
        S, W = c.args[0], c.args[1]
        if not (isinstance(S, ast.Name) and isinstance(W, ast.Name)):
          continue
        ds, dw = ff.defs_for(S), ff.defs_for(W)
        from_sum = lambda d: d.kind == 'assign' and isinstance(d.value, ast.Call) and wmean.repo_fn(ff, d.value) in wmean.SUM and d.index is not None
        if not (any(from_sum(d) for d in ds) or any(from_sum(d) for d in dw)):
          continue  # this is the client-delta mean, not the gradient pair
        n += 1
        same_call = len(ds) == 1 and len(dw) == 1 and from_sum(next(iter(ds))) and from_sum(next(iter(dw))) and next(iter(ds)).value is next(
            iter(dw)).value and next(iter(ds)).index == (0,) and next(iter(dw)).index == (1,)
        extra = [txt(d.value)[:50] for d in list(ds) + list(dw) if not from_sum(d) and d.value is not None]
        check.ob('R-WMEAN.pair-sum', fi, txt(c)[:80], same_call,
                 'sum of count-weighted gradients and sum of counts come unmodified from one tree_sum over the clients' if same_call else
                 f'the gradient sum or the count is modified between the sum over clients and the division ({extra}): anything added '
                 f'to the count-weighted sum (e.g. a regulariser gradient) is divided by the number of examples instead of entering once',
                 node=c)
  check.floor('R-WMEAN.pair-sum', 'full-batch gradient sites', n, 2)
  # the count of real examples over the cohort is zero when every client is empty: no raw division by it
  dv = DivAnalysis(repo)
  for modname in ('fedjax.algorithms.mime', 'fedjax.algorithms.mime_lite'):
    for a in entries.find_algorithms(repo, [repo.module(modname)]):
      for sdiv in dv.sites(a.apply):
        if sdiv.cls == 'DATA':
          check.ob('R-DIV', a.apply, txt(sdiv.node)[:80], sdiv.guard is not None,
                   f'raw division by {txt(sdiv.denom)} ({sdiv.why}): 0/0 for a cohort without real examples; guard: {sdiv.guard}',
                   node=sdiv.node, exact=True)
  # the per-client pair handed to that sum is the two accumulators as they are: a count that is clamped or defaulted (e.g. to >= 1)
  # makes a client without real examples weigh something
  from fjsa.rules import skeleton as sk
  for t in entries.find_triples(repo, [repo.module('fedjax.algorithms.mime')]):
    if t.final is None or t.step is None or 'grads' not in t.name:
      continue
    fff = FuncFlow.of(repo, t.final)
    recf = sk.Record(fff, t.final.positional_params[1])
    for _, rv in fff.returns():
      for x in fff.expand(rv):
        if isinstance(x, ast.Tuple) and len(x.elts) == 2:
          fields = [recf.field_of(e) for e in x.elts]
          check.ob('R-WMEAN.pair-final', t.final, txt(x)[:80], None not in fields,
                   f'client_final returns the accumulated (gradient sum, example count) fields unmodified (fields: {fields}); a clamped count '
                   'gives an all-padding client a non-zero weight in the full-batch gradient', node=x)


def _wired(check: Check, repo, step_fi: FuncInfo):
  """A factory whose per-batch step accumulates the regulariser is only harmless while nobody hands it one."""
  sc = step_fi.scope.parent
  fac = step_fi.module.funcs_by_node.get(sc.node) if sc is not None and sc.kind == 'function' else None
  if fac is None or 'regularizer' not in fac.params:
    return
  for m in repo.library_modules():
    for g in m.functions():
      gff = FuncFlow.of(repo, g)
      for _, c in gff.calls():
        r = gff.callee(c)
        if r.kind == 'func' and r.func is fac:
          from fjsa.flow import call_args
          b = call_args(c, fac.positional_params)
          v = b.get('regularizer')
          passed = v is not None and not (isinstance(v, ast.Constant) and v.value is None)
          check.ob('R-REG.wire', g, txt(c)[:90], not passed,
                   f'{fac.qualname} adds the regulariser once per padded batch (see the known finding); passing a regulariser here makes '
                   'the per-domain loss sums depend on the padded batch size', node=c)


def _regularizer_sites(check: Check):
  """Every call of a `regularizer` callable, classified by where it happens."""
  repo = check.repo
  triples = entries.find_triples(repo)
  step_nodes = {id(t.step.node): t for t in triples if t.step is not None}
  n = 0
  for m in repo.library_modules():
    for fi in m.functions():
      ff = FuncFlow.of(repo, fi)
      calls = [c for _, c in ff.calls() if isinstance(c.func, ast.Name) and c.func.id == 'regularizer' and not ff.is_local(c.func)
               or (isinstance(c.func, ast.Name) and c.func.id == 'regularizer' and ff.param_of(c.func) == 'regularizer')]
      seen = set()
      calls = [c for c in calls if not (id(c) in seen or seen.add(id(c)))]
      for c in calls:
        n += 1
        if id(fi.node) in step_nodes:
          # inside a for_each_client step: the result is carried in the state and summed across batches
          st = ff.module.enclosing_stmt(c)
          tgt = None
          if isinstance(st, ast.AugAssign) and isinstance(st.target, ast.Name):
            tgt = st.target.id
          accumulated = False
          ret = ff.returns()
          if tgt:
            for _, rv in ret:
              for x in ff.deep_walk(rv) if rv is not None else []:
                if isinstance(x, ast.BinOp) and isinstance(x.op, ast.Add) and any(
                    isinstance(s, ast.Name) and s.id == tgt for s in (x.left, x.right)):
                  accumulated = True
          check.ob('R-REG', fi, 'regularizer(params) added inside the per-batch step to a carried sum', not accumulated,
                   'the regulariser is added inside a per-batch step to a quantity that is then summed across batches: the '
                   'total depends on the number of batches (batch geometry), not only on the examples', node=c)
          if accumulated:
            _wired(check, repo, fi)
        else:
          check.ob('R-REG.site', fi, txt(c), True, 'regulariser applied outside any per-batch accumulation', nontrivial=False)
  check.floor('R-REG', 'regulariser call sites', n, 4)
