"""C05 - evaluation is invariant to batching and padding (metric monoid), structural part."""
from __future__ import annotations

import ast
from typing import List, Optional

from fjsa.flow import FuncFlow, call_args, same, txt
from fjsa.model import ClassInfo, FuncInfo
from fjsa.report import Check
from fjsa.rules import entries, maskflow, wmean
from fjsa.rules import metricsrules as mr
from fjsa.rules.div import DivAnalysis

MOD = mr.MOD
MODELS = 'fedjax.core.models'


def run(check: Check):
  repo = check.repo
  check.rule('R-STAT', 'merge/reduce of every Stat return through the class\'s new() factory and combine field by field '
             '(accum with accum, weight with weight); MeanStat.new clamps the weight at 0 and zeroes accum under the clamped '
             'weight; statistics are only ever built through new()')
  check.rule('R-MASK', 'evaluate_batch replaces every leaf of the vmapped statistic by metric.zero() under the batch mask '
             'before reduce(); _evaluate_model_step always supplies a mask (the batch\'s own, or all-True of the batch '
             'length) and merges per metric; evaluation loops start from zero() and end in result(); every padded batch '
             'stream reaches a mask-aware consumer')
  check.rule('R-DIV', 'MeanStat.result is util.safe_div: an empty / fully masked input yields 0, never NaN')
  check.rule('R-TYPE', 'zero() and evaluate_example() agree on the Stat class (shared with C14)')
  check.undecided('associativity/commutativity up to floating-point rounding; equality with example-by-example merging')
  stats = mr.stat_classes(repo)
  stat_names = [c.name for c in stats]
  check.floor('R-STAT', 'Stat subclasses', len(stats), 2)
  for ci in stats:
    _stat_algebra(check, ci, stat_names)
  _direct_ctor(check, stat_names)
  _mean_new(check)
  _evaluate_batch(check)
  _apply_mask(check)
  _model_step(check)
  _evaluate_model(check)
  _model_evaluator(check)
  # the average-loss evaluators of models.py are the same kind of batch-partitioned statistic: empty / fully masked input -> 0
  from fjsa.props import c06
  c06._average_loss(check)
  c06._finalize(check)
  # type agreement
  n = 0
  for ci in mr.metric_classes(repo):
    if ci.name == 'PerDomainMetric':
      continue
    ev, zero = ci.methods.get('evaluate_example'), ci.methods.get('zero')
    if ev is None or zero is None:
      continue
    zc = [x for x, _ in mr.return_stat_classes(repo, zero, stat_names)]
    ec = [x for x, _ in mr.return_stat_classes(repo, ev, stat_names)]
    ok = bool(zc) and bool(ec) and None not in zc + ec and len(set(zc + ec)) == 1
    n += 1
    check.ob('R-TYPE', ci, f'{ci.name}: {sorted(set(map(str, zc + ec)))}', ok,
             'zero() is the identity of the same statistic type that evaluate_example() produces')
  check.floor('R-TYPE', 'metrics', n, 13)
  static_metric_fields(check)
  _per_domain_zero(check)
  _mask_kept(check)
  # division guards
  dv = DivAnalysis(repo)
  for modname, q in ((MOD, 'MeanStat.result'), ('fedjax.core.util', 'safe_div')):
    fi = repo.func(modname, q)
    ff = FuncFlow.of(repo, fi)
    check.analysed(fi)
    sites = dv.sites(fi)
    for s in sites:
      check.ob('R-DIV', fi, txt(s.node), s.cls != 'DATA' or s.guard is not None,
               f'denominator {txt(s.denom)} is {s.cls}; guard: {s.guard}', node=s.node)
    if q == 'MeanStat.result':
      ok = any(isinstance(rv, ast.Call) and wmean.repo_fn(ff, rv) == 'fedjax.core.util:safe_div' and len(rv.args) == 2 and
               txt(rv.args[0]) == 'self.accum' and txt(rv.args[1]) == 'self.weight' for _, rv in ff.returns()) and not sites
      check.ob('R-DIV', fi, 'safe_div(self.accum, self.weight)', ok, 'the mean of an empty statistic is 0, not 0/0')
    else:
      _safe_div_shape(check, fi, ff)
  # padded producers reach mask-aware consumers (evaluation side)
  triples = entries.find_triples(repo)
  ma = maskflow.MaskAwareness(repo)
  n_prod = 0
  for p in maskflow.find_producers(repo, repo.library_modules()):
    ok, why = maskflow.consumer_of(repo, p, triples, ma)
    n_prod += 1
    where = p.fi or p.module
    if ok is None:
      check.inconclusive('R-MASK.consumer', where, txt(p.call)[:70], why, node=p.call)
    else:
      check.ob('R-MASK.consumer', where, txt(p.call)[:70], ok, why, node=p.call)
  check.floor('R-MASK', 'padded batch producers', n_prod, 11)


def _field_names(ci: ClassInfo) -> List[str]:
  return [f for f, _, _ in ci.fields]


def _stat_algebra(check: Check, ci: ClassInfo, stat_names):
  repo = check.repo
  fields = _field_names(ci)
  for meth in ('merge', 'reduce'):
    fi = ci.methods.get(meth)
    if fi is None:
      check.ob('R-STAT', ci, f'{ci.name}.{meth}', False, 'missing')
      continue
    ff = FuncFlow.of(repo, fi)
    check.analysed(fi)
    for _, rv in ff.returns():
      ok_new = isinstance(rv, ast.Call) and isinstance(rv.func, ast.Attribute) and rv.func.attr == 'new' and txt(
          rv.func.value) in (ci.name, 'cls', 'type(self)')
      args = rv.args if isinstance(rv, ast.Call) else []
      ok_fields = len(args) == len(fields)
      detail = []
      for fld, a in zip(fields, args):
        vals = ff.expand(a)
        good = False
        for v in vals:
          if meth == 'merge':
            other = fi.positional_params[1]
            good = (isinstance(v, ast.BinOp) and isinstance(v.op, ast.Add) and
                    {txt(v.left), txt(v.right)} == {f'self.{fld}', f'{other}.{fld}'})
          else:
            good = (isinstance(v, ast.Call) and ff.ext(v.func) == 'jax.numpy.sum' and v.args and txt(v.args[0]) == f'self.{fld}' and
                    any(k.arg == 'axis' and ff.param_of(k.value) == 'axis' for k in v.keywords))
        detail.append(f'{fld}:{good}')
        ok_fields = ok_fields and good
      check.ob('R-STAT', fi, txt(rv)[:90] if rv is not None else 'return', ok_new and ok_fields,
               f'{meth} must return {ci.name}.new(...) combining each field with the same field ({", ".join(detail)})',
               node=rv)


def _direct_ctor(check: Check, stat_names):
  """Stat constructors are called directly only inside `new`."""
  repo = check.repo
  m = repo.module(MOD)
  bad = []
  n_new = 0
  for fi in m.functions():
    ff = FuncFlow.of(repo, fi)
    for c, cls, how in mr.stat_ctor_calls(repo, ff, stat_names):
      if how == 'new':
        n_new += 1
        # the accumulated value is a number: a boolean accumulator makes merge (`+`) a logical OR and reduce (`sum`) a count of at most 1
        if c.args:
          for v in ff.expand(c.args[0]):
            boolean = isinstance(v, (ast.Compare, ast.BoolOp)) or (isinstance(v, ast.Call) and (ff.ext(v.func) or '') in (
                'jax.numpy.any', 'jax.numpy.all', 'jax.numpy.logical_and', 'jax.numpy.logical_or', 'jax.numpy.logical_not', 'jax.numpy.isin',
                'jax.numpy.isfinite', 'jax.numpy.isnan', 'jax.numpy.equal', 'jax.numpy.not_equal', 'jax.numpy.greater', 'jax.numpy.less'))
            small_int = isinstance(v, ast.Call) and any(k.arg == 'dtype' and txt(k.value).split('.')[-1] in (
                'uint8', 'int8', 'uint16', 'int16', 'bool_', 'bool') for k in v.keywords)
            if small_int:
              check.ob('R-STAT.dtype', fi, txt(c)[:80], False,
                       f'`{txt(v)[:50]}` is a narrow integer accumulator: merging statistics one by one adds in that type and wraps around '
                       '(uint8 after 255 examples in one cell)', node=c, exact=True)
            if boolean:
              check.ob('R-STAT.dtype', fi, txt(c)[:80], False,
                       f'`{txt(v)[:50]}` is boolean: statistics of booleans merge by OR instead of adding up; cast it (.astype(jnp.float32)) '
                       'before it becomes the accumulator', node=c, exact=True)
      elif fi.name != 'new':
        bad.append((fi, c))
  for fi, c in bad:
    check.ob('R-STAT.factory', fi, txt(c)[:70], False,
             'a statistic is built by calling the dataclass constructor directly, bypassing the sanitising new() factory',
             node=c)
  check.ob('R-STAT.factory', m, f'{n_new} uses of <Stat>.new(...)', not bad, 'all statistics are built through new()',
           nontrivial=True)
  check.floor('R-STAT', 'uses of new()', n_new, 30)


def _mean_new(check: Check):
  repo = check.repo
  fi = repo.func(MOD, 'MeanStat.new')
  ff = FuncFlow.of(repo, fi)
  check.analysed(fi)
  p_acc, p_w = fi.positional_params[1:3]
  rets = ff.returns()
  ok_clamp = ok_zero = False
  why = ''
  for _, rv in rets:
    if not (isinstance(rv, ast.Call) and len(rv.args) == 2):
      continue
    a, w = rv.args
    # weight: maximum(0, weight)
    for x in ff.expand(w):
      if isinstance(x, ast.Call) and ff.ext(x.func) == 'jax.numpy.maximum' and len(x.args) == 2:
        zs = [z for z in x.args if isinstance(z, ast.Constant) and z.value == 0]
        other = [z for z in x.args if z not in zs]
        if zs and other and any(isinstance(n, ast.Name) and n.id == p_w for n in ast.walk(other[0])):
          ok_clamp = True
    # accum: where(<clamped weight> == 0, 0, accum)
    for x in ff.expand(a):
      if isinstance(x, ast.Call) and ff.ext(x.func) == 'jax.numpy.where' and len(x.args) == 3:
        cond, zero, val = x.args
        if isinstance(cond, ast.Compare) and isinstance(cond.ops[0], ast.Eq) and isinstance(cond.left, ast.Name) and isinstance(
            cond.comparators[0], ast.Constant) and cond.comparators[0].value == 0 and isinstance(zero, ast.Constant) and zero.value == 0:
          # the weight tested is the clamped one
          ds = ff.defs_for(cond.left)
          clamped = bool(ds) and all(d.kind == 'assign' and isinstance(d.value, ast.Call) and ff.ext(d.value.func) == 'jax.numpy.maximum' for d in ds)
          same_w = isinstance(w, ast.Name) and w.id == cond.left.id and ff.defs_for(w) == ds
          uses_acc = any(isinstance(n, ast.Name) and n.id == p_acc for n in ast.walk(val))
          ok_zero = clamped and same_w and uses_acc
          why = f'cond on clamped weight={clamped}, same variable returned={same_w}'
  check.ob('R-STAT.sanitise', fi, 'weight = maximum(0, weight)', ok_clamp, 'negative weights are clamped to 0')
  check.ob('R-STAT.sanitise', fi, 'accum = where(weight == 0, 0, accum)', ok_zero,
           f'accum is zeroed exactly where the clamped weight is 0 (so masked rows with arbitrary content contribute nothing): {why}')


def _evaluate_batch(check: Check):
  repo = check.repo
  fi = repo.func(MOD, 'evaluate_batch')
  ff = FuncFlow.of(repo, fi)
  check.analysed(fi)
  p_metric, p_ex, p_pred, p_mask = fi.positional_params[:4]
  rets = ff.returns()
  ok = False
  why = ''
  for _, rv in rets:
    if not (isinstance(rv, ast.Call) and isinstance(rv.func, ast.Attribute) and rv.func.attr == 'reduce' and isinstance(
        rv.func.value, ast.Name)):
      continue
    name = rv.func.value
    ds = ff.def_values(name)
    vm = [d for d in ds if isinstance(d.value, ast.Call) and isinstance(d.value.func, ast.Call) and ff.ext(d.value.func.func) == 'jax.vmap']
    masked = [d for d in ds if isinstance(d.value, ast.Call) and ff.ext(d.value.func) in wmean.TREE_MAPS]
    ok_vm = len(vm) == 1 and txt(vm[0].value.func.args[0]) == f'{p_metric}.evaluate_example' and [
        ff.param_of(a) for a in vm[0].value.args] == [p_ex, p_pred]
    ok_mask = False
    if len(masked) == 1:
      c = masked[0].value
      f = ff.resolve(c.args[0])
      part = f.kind == 'func' and f.func.name == 'apply_mask' and len(f.bound_args) == 1 and ff.param_of(f.bound_args[0]) == p_mask
      trees = c.args[1:]
      t_ok = len(trees) == 2 and isinstance(trees[0], ast.Name) and trees[0].id == name.id and isinstance(trees[1], ast.Call) and txt(
          trees[1].func) == f'{p_metric}.zero'
      # guarded by `batch_mask is not None`
      from fjsa.flow import guards_of
      g = guards_of(ff, c)
      g_ok = any(isinstance(t, ast.Compare) and isinstance(t.ops[0], ast.Is) and ff.param_of(t.left) == p_mask and not pol for t, pol in g)
      ok_mask = part and t_ok and g_ok
      why = f'apply_mask(batch_mask, stat, metric.zero()): partial={part}, operands={t_ok}, on the mask arm={g_ok}'
    ok = ok_vm and ok_mask and len(ds) == 2
  check.ob('R-MASK.batch', fi, 'vmap -> apply_mask(mask, stat, zero) -> reduce', ok,
           f'per-example statistics of masked rows are replaced by the metric\'s zero before reduction: {why}')


def _apply_mask(check: Check):
  repo = check.repo
  fi = repo.func(MOD, 'apply_mask')
  ff = FuncFlow.of(repo, fi)
  p_mask, p_a, p_b = fi.positional_params[:3]
  ok = False
  for _, rv in ff.returns():
    if isinstance(rv, ast.Call) and ff.ext(rv.func) == 'jax.numpy.where' and len(rv.args) == 3:
      cond, a, b = rv.args
      ok = any(isinstance(n, ast.Name) and n.id == p_mask for n in ast.walk(cond)) and ff.param_of(a) == p_a and ff.param_of(b) == p_b
  check.ob('R-MASK.apply', fi, 'where(mask, a, b)', ok, 'a is kept where the mask is True, b elsewhere')
  # R-MASK.rank: the row mask is lifted to the full rank of the operands - expand_dims(mask, tuple(range(1, R))) with
  # R = max(rank a, rank b). Any smaller R masks positions / classes instead of rows when the sizes happen to coincide.
  def rank_of(e):
    if isinstance(e, ast.Call) and ff.ext(e.func) == 'builtins.len' and len(e.args) == 1 and isinstance(e.args[0], ast.Attribute) and e.args[0].attr == 'shape':
      return ff.param_of(e.args[0].value)
    if isinstance(e, ast.Attribute) and e.attr == 'ndim':
      return ff.param_of(e.value)
    if isinstance(e, ast.Call) and ff.ext(e.func) in ('jax.numpy.ndim', 'numpy.ndim') and len(e.args) == 1:
      return ff.param_of(e.args[0])
    return None
  verdict, shown, at = None, 'expand_dims(mask, tuple(range(1, rank)))', None
  for _, c in ff.calls():
    if ff.ext(c.func) in ('jax.numpy.expand_dims', 'numpy.expand_dims') and len(c.args) + len(c.keywords) == 2:
      ax = c.args[1] if len(c.args) == 2 else c.keywords[0].value
      ax = ff.expand1(ax) or ax
      if isinstance(ax, ast.Call) and ff.ext(ax.func) == 'builtins.tuple' and len(ax.args) == 1:
        ax = ff.expand1(ax.args[0]) or ax.args[0]
      if isinstance(ax, ast.Call) and ff.ext(ax.func) == 'builtins.range' and len(ax.args) == 2:
        lo, hi = ax.args
        hi = ff.expand1(hi) or hi
        at = c
        shown = f'expand_dims(mask, range({txt(lo)}, {txt(hi)}))'
        lo_ok = isinstance(lo, ast.Constant) and lo.value == 1
        hi_ok = (isinstance(hi, ast.Call) and ff.ext(hi.func) == 'builtins.max' and not hi.keywords and
                 {rank_of(x) for x in (hi.args if len(hi.args) == 2 else [])} == {p_a, p_b})
        verdict = lo_ok and hi_ok
  check.ob('R-MASK.rank', fi, shown, verdict,
           'the mask gets one new axis for each trailing axis 1 .. max(rank a, rank b) - 1 of the operands, so it selects rows '
           'whatever the rank of the statistic' if verdict else
           'the lifted mask does not cover axes 1 .. max(rank a, rank b) - 1: for per-position / matrix statistics it broadcasts '
           'against a non-row axis (padding rows leak when the sizes coincide)' if verdict is False else
           'the expand_dims(mask, range(1, R)) idiom was not found', node=at)


def _model_step(check: Check):
  repo = check.repo
  fi = repo.func(MODELS, '_evaluate_model_step')
  ff = FuncFlow.of(repo, fi)
  check.analysed(fi)
  p_model, p_params, p_batch, p_stat = fi.positional_params[:4]
  # the variable handed to evaluate_batch as batch_mask, and its definitions
  eb = [c for _, c in ff.calls() if wmean.repo_fn(ff, c) == f'{MOD}:evaluate_batch']
  MASKV = None
  if eb:
    b0 = call_args(eb[0], ['metric', 'batch_example', 'batch_prediction', 'batch_mask'])
    if isinstance(b0.get('batch_mask'), ast.Name):
      MASKV = b0['batch_mask'].id
  mask_defs = [d for ds in ff.rd.defs_at.values() for d in ds if d.name == MASKV]
  own = fallback = False
  for d in mask_defs:
    v = d.value
    if v is None:
      continue
    if any(isinstance(x, ast.Subscript) and ff.param_of(x.value) == p_batch and maskflow.is_mask_key(ff, x.slice) for x in ast.walk(v)):
      own = True
    if isinstance(v, ast.Call) and ff.ext(v.func) == 'jax.numpy.ones' and any(
        isinstance(x, ast.Call) and ff.ext(x.func) == 'builtins.len' for x in ast.walk(v)):
      fallback = True
  check.ob('R-MASK.step', fi, 'mask = batch[MASK] | ones(len(batch))', own and fallback and MASKV is not None,
           f'the batch\'s own mask is used when present (ok={own}); otherwise every row counts (all-True of the batch length, '
           f'ok={fallback})')
  # evaluate_batch(metric, batch, pred, mask)
  for c in eb[:1]:
    b = call_args(c, ['metric', 'batch_example', 'batch_prediction', 'batch_mask'])
    mk = b.get('batch_mask')
    ok_call = isinstance(mk, ast.Name) and mk.id == MASKV and ff.param_of(b.get('batch_example')) == p_batch
    pred = b.get('batch_prediction')
    ok_pred = pred is not None and any(isinstance(x, ast.Call) and txt(x.func) == f'{p_model}.apply_for_eval' and [
        ff.param_of(a) for a in x.args] == [p_params, p_batch] for x in ff.expand(pred))
    check.ob('R-MASK.step', fi, 'evaluate_batch(metric, batch, apply_for_eval(params, batch), mask)', ok_call and ok_pred,
             f'every metric is evaluated on this batch with this batch\'s mask (ok={ok_call}) and the model\'s predictions '
             f'for these params (ok={ok_pred})', node=c)
  if not eb:
    check.ob('R-MASK.step', fi, 'evaluate_batch(...)', False, 'the step never evaluates the metrics on the batch')
  # merge
  ok_merge = False
  for _, rv in ff.returns():
    if isinstance(rv, ast.Call) and ff.ext(rv.func) in wmean.TREE_MAPS and len(rv.args) >= 3 and isinstance(rv.args[0], ast.Lambda):
      lam = rv.args[0]
      a, b = [x.arg for x in lam.args.args][:2]
      body = lam.body
      ok_merge = (isinstance(body, ast.Call) and isinstance(body.func, ast.Attribute) and body.func.attr == 'merge' and
                  {txt(body.func.value), txt(body.args[0])} == {a, b} and ff.param_of(rv.args[1]) == p_stat)
  check.ob('R-STAT.merge', fi, 'tree_map(lambda a, b: a.merge(b), stat, new_stat)', ok_merge,
           'the running statistic is merged with the batch statistic metric by metric')


def _evaluate_model(check: Check):
  repo = check.repo
  fi = repo.func(MODELS, 'evaluate_model')
  ff = FuncFlow.of(repo, fi)
  check.analysed(fi)
  loop_ok = False
  STAT = None
  for n in ff.cfg.nodes:
    if n.kind == 'for' and ff.param_of(n.ast.iter) == fi.positional_params[2]:
      for st in n.ast.body:
        if isinstance(st, ast.Assign) and isinstance(st.value, ast.Call) and wmean.repo_fn(ff, st.value) == f'{MODELS}:_evaluate_model_step':
          b = call_args(st.value, ['model', 'params', 'batch', 'stat'])
          if isinstance(st.targets[0], ast.Name) and isinstance(b.get('stat'), ast.Name) and st.targets[0].id == b['stat'].id:
            STAT = st.targets[0].id
            loop_ok = isinstance(b.get('batch'), ast.Name) and isinstance(n.ast.target, ast.Name) and b['batch'].id == n.ast.target.id
  # every batch is merged: no break in the batch loop, the step is on every iteration
  for n in ff.cfg.nodes:
    if n.kind == 'for' and ff.param_of(n.ast.iter) == fi.positional_params[2]:
      brk = [x for x in ast.walk(n.ast) if isinstance(x, ast.Break) and wmean._loop_of(ff, x) is n.ast]
      step_nodes = [m_ for m_ in ff.cfg.nodes if m_.kind == 'stmt' and isinstance(m_.ast, ast.Assign) and isinstance(m_.ast.value, ast.Call) and
                    wmean.repo_fn(ff, m_.ast.value) == f'{MODELS}:_evaluate_model_step']
      every = bool(step_nodes) and wmean._on_every_iteration(ff, n.ast, step_nodes[0])
      check.ob('R-STAT.loop', fi, 'every batch is merged', not brk and every,
               'the loop over batches must not stop early or skip a batch: later batches would be dropped and the result would '
               f'depend on batch order (break statements: {len(brk)}, step on every iteration: {every})')
  init_ok = STAT is not None and any(d.kind == 'assign' and isinstance(d.value, ast.DictComp) and isinstance(d.value.value, ast.Call) and txt(
      d.value.value.func).endswith('.zero') for ds in ff.rd.defs_at.values() for d in ds if d.name == STAT)
  res_ok = any(isinstance(rv, ast.Call) and ff.ext(rv.func) in wmean.TREE_MAPS and isinstance(rv.args[0], ast.Lambda) and isinstance(
      rv.args[0].body, ast.Call) and isinstance(rv.args[0].body.func, ast.Attribute) and rv.args[0].body.func.attr == 'result'
               for _, rv in ff.returns())
  check.ob('R-STAT.loop', fi, 'stat = zero; for batch: stat = step(..., batch, stat); result()', init_ok and loop_ok and res_ok,
           f'starts from every metric\'s zero (ok={init_ok}), threads the statistic through every batch (ok={loop_ok}), '
           f'ends in result() (ok={res_ok})')


def _model_evaluator(check: Check):
  repo = check.repo
  triples = entries.find_triples(repo, [repo.module(MODELS)])
  t = next((x for x in triples if x.owner.qualname == 'ModelEvaluator.__init__'), None)
  if t is None or not t.functions():
    check.error('anchor-missing: ModelEvaluator triple')
    return
  iff, sff, fff = (FuncFlow.of(repo, x) for x in (t.init, t.step, t.final))
  for x in (t.init, t.step, t.final):
    check.analysed(x)
  init_ok = any(any(isinstance(x, ast.Call) and isinstance(x.func, ast.Attribute) and x.func.attr == 'zero' and not x.args for x in iff.deep_walk(e))
                for _, rv in iff.returns() for el in ([rv.elts[1]] if isinstance(rv, ast.Tuple) and len(rv.elts) == 2 else [])
                for e in iff.expand(el))
  step_ok = False
  for _, c in sff.calls():
    if wmean.repo_fn(sff, c) == f'{MODELS}:_evaluate_model_step':
      b = call_args(c, ['model', 'params', 'batch', 'stat'])
      step_ok = sff.param_of(b.get('batch')) == t.step.positional_params[1] and isinstance(b.get('stat'), ast.Name)
  # every value returned by final is built from <stat>.result() of the items of the state's statistics (a dict comprehension, dict(...)
  # of pairs, or a loop): no raw statistic leaves the evaluator
  fin_ok = bool(fff.returns()) and all(rv is not None and any(
      isinstance(x, ast.Call) and isinstance(x.func, ast.Attribute) and x.func.attr == 'result' and not x.args for x in fff.deep_walk(rv))
                                        for _, rv in fff.returns())
  check.ob('R-STAT.loop', t.owner, 'ModelEvaluator triple', init_ok and step_ok and fin_ok,
           f'per-client evaluation starts from zero (ok={init_ok}), steps through _evaluate_model_step with the client\'s '
           f'batch (ok={step_ok}) and finishes with result() (ok={fin_ok})')


def _safe_div_shape(check: Check, fi: FuncInfo, ff: FuncFlow):
  a, b = fi.positional_params[:2]
  ok = False
  for _, rv in ff.returns():
    if isinstance(rv, ast.Call) and ff.ext(rv.func) == 'jax.numpy.where' and len(rv.args) == 3:
      cond, val, other = rv.args
      conds = ff.expand(cond)
      c_ok = any(isinstance(c, ast.Compare) and isinstance(c.ops[0], ast.NotEq) and ff.param_of(c.left) == b and isinstance(
          c.comparators[0], ast.Constant) and c.comparators[0].value == 0 for c in conds)
      z_ok = isinstance(other, ast.Constant) and other.value == 0
      ok = c_ok and z_ok
  check.ob('R-DIV.safe', fi, 'where(b != 0, a / where(b != 0, b, 1), 0)', ok,
           'safe_div returns exactly 0 where the denominator is 0 and divides by a non-zero stand-in there (no NaN, finite gradient)')


def static_metric_fields(check: Check, rule: str = 'R-TYPE.static'):
  """A Metric is a static (hashed) argument of the jitted evaluate_batch: every configuration field takes part in __eq__ / __hash__.
  A field declared with compare=False / hash=False makes two differently configured metrics equal, and the second one silently reuses
  the trace (and the constants) of the first."""
  repo = check.repo
  n = 0
  for ci in mr.metric_classes(repo):
    for st in ci.node.body:
      if not isinstance(st, ast.AnnAssign) or not isinstance(st.target, ast.Name):
        continue
      n += 1
      v = st.value
      bad = None
      if isinstance(v, ast.Call) and txt(v.func).split('.')[-1] == 'field':
        for k in v.keywords:
          if k.arg in ('compare', 'hash') and isinstance(k.value, ast.Constant) and k.value.value is False:
            bad = f'{k.arg}=False'
      if bad:
        check.ob(rule, ci, f'{ci.name}.{st.target.id}: field({bad})', False,
                 f'`{st.target.id}` is left out of equality / hash: metrics that differ only in it are the same static jit argument, so '
                 'evaluate_batch reuses the compiled function of the first one', node=st, exact=True)
    for d in ci.node.decorator_list:
      if isinstance(d, ast.Call):
        for k in d.keywords:
          if (k.arg == 'eq' and isinstance(k.value, ast.Constant) and k.value.value is False) or (
              k.arg == 'unsafe_hash' and isinstance(k.value, ast.Constant) and k.value.value is True):
            check.ob(rule, ci, f'@{txt(d)[:50]}', False, 'identity-based equality / hash of a metric defeats the jit cache key', node=d, exact=True)
  check.ob(rule, ('fedjax/core/metrics.py', '<metric classes>'), f'{n} configuration fields', True,
           'every field of every metric takes part in equality and hash', nontrivial=False)


def _per_domain_zero(check: Check):
  """The identity of a per-domain statistic has the domain axis: zero() gives base.zero() a leading [num_domains] dimension, so an
  evaluation over no batches has the shape of every other evaluation."""
  repo = check.repo
  ci = next((c for c in mr.metric_classes(repo) if c.name == 'PerDomainMetric'), None)
  if ci is None or 'zero' not in ci.methods:
    return
  z = ci.methods['zero']
  ff = FuncFlow.of(repo, z)
  check.analysed(z)
  mentions = any(isinstance(x, ast.Attribute) and x.attr == 'num_domains' for n in ff.cfg.nodes if n.ast is not None for x in ff.deep_walk(n.ast))
  shaped = any((ff.ext(c.func) or '') in ('jax.numpy.broadcast_to', 'jax.numpy.zeros', 'jax.numpy.tile', 'jax.numpy.repeat', 'jax.numpy.stack',
                                          'jax.numpy.full') for _, c in ff.calls()) or any(
      (ff.ext(c.func) or '') in ('jax.numpy.broadcast_to', 'jax.numpy.zeros', 'jax.numpy.tile', 'jax.numpy.repeat', 'jax.numpy.stack',
                                 'jax.numpy.full') for g in z.scope.children if g.kind == 'function' for c in ast.walk(g.node) if isinstance(c, ast.Call)
      for ff in [FuncFlow.of(repo, z.module.funcs_by_node[g.node])])
  ok = True if (mentions and shaped) else (False if not mentions else None)
  check.ob('R-TYPE.domains', z, 'zero(): base.zero() with a leading [num_domains] axis', ok,
           'the identity statistic carries the domain axis (num_domains is used to shape it)' if ok else
           'zero() never looks at num_domains: the identity has the shape of the base statistic, not [num_domains, ...]')


def _mask_kept(check: Check):
  """The mask feature of a padded batch reaches whoever evaluates the batch: nothing in the evaluation paths of models.py / metrics.py
  removes it (pop, del, a filtered copy of the batch). "The last row is real" or "padding rows are all pad tokens" are not facts the
  library may rely on - a mask may be False anywhere."""
  repo = check.repo
  n = 0
  for modname in (MODELS, MOD):
    m = repo.module(modname)
    for fi in m.functions():
      ff = FuncFlow.of(repo, fi)
      for _, c in ff.calls():
        if isinstance(c.func, ast.Attribute) and c.func.attr == 'pop' and c.args and 'EXAMPLE_MASK_KEY' in txt(c.args[0]):
          n += 1
          check.ob('R-MASK.kept', fi, txt(c)[:60], False, 'the mask is removed from the batch', node=c, exact=True)
      for x in ast.walk(fi.node):
        if isinstance(x, ast.DictComp) and any(isinstance(t, ast.Compare) and 'EXAMPLE_MASK_KEY' in txt(t) and isinstance(t.ops[0], (ast.NotEq, ast.IsNot))
                                               for g in x.generators for t in g.ifs):
          n += 1
          check.ob('R-MASK.kept', fi, txt(x)[:70], False,
                   'a copy of the batch without its mask is evaluated: padding rows count as real examples whenever the assumption '
                   'behind the shortcut does not hold', node=x, exact=True)
        if isinstance(x, ast.Delete) and any('EXAMPLE_MASK_KEY' in txt(t) for t in x.targets):
          n += 1
          check.ob('R-MASK.kept', fi, txt(x)[:60], False, 'the mask is deleted from the batch', node=x, exact=True)
  if not n:
    check.ob('R-MASK.kept', (repo.module(MODELS).relpath, '<evaluation paths>'), 'EXAMPLE_MASK_KEY is never removed', True,
             'no evaluation path drops the mask feature', nontrivial=False)

