"""Obligation bookkeeping, evidence files, exit codes.

Exit codes: 0 property held on everything analysed (known findings are
printed as KNOWN-FINDING lines); 1 at least one violation not listed in
known_findings.json (one VIOLATION line each); 2 the analysis itself could not
decide (anchor missing, instance floor not met, unrecognised idiom, internal
error) - never printed as VIOLATION.
"""
from __future__ import annotations

import ast
import hashlib
import json
import os
import re
import time
from dataclasses import dataclass, field
from typing import Any, Dict, List, Optional

from fjsa.model import AnalysisError, FuncInfo, ClassInfo, Module, Repo

VERIF_ROOT = os.path.dirname(os.path.dirname(os.path.abspath(__file__)))


def norm_text(s: str) -> str:
  return re.sub(r'\s+', ' ', s).strip()


def construct_text(node) -> str:
  if isinstance(node, str):
    return norm_text(node)
  try:
    return norm_text(ast.unparse(node))
  except Exception:  # pylint: disable=broad-except
    return type(node).__name__


@dataclass
class Ob:
  rule: str
  file: str
  function: str
  construct: str
  status: str  # ok | violation | inconclusive
  detail: str = ''
  line: int = 0
  nontrivial: bool = True
  advisory: bool = False
  facts: Optional[Dict[str, Any]] = None
  changed: bool = False   # inconclusive only: the function is not as on the reference tree (the rule does not recognise the new code)

  def key(self, prop: str) -> str:
    return f'{prop}|{self.rule}|{self.file}|{self.function}|{self.construct}'

  def brief(self) -> str:
    return (f'{self.rule} {self.file}:{self.line} {self.function} '
            f'[{self.construct}] - {self.detail}')


class Inconclusive(AnalysisError):
  pass


class Check:
  """Collects obligations for one property run."""

  def __init__(self, prop: str, tier: str, repo: Repo, seed: int = 0):
    self.prop = prop
    self.tier = tier
    self.repo = repo
    self.seed = seed
    self.obs: List[Ob] = []
    self.floors: List[str] = []
    self.errors: List[str] = []
    self.hard_errors: set = set()   # errors that fail the run even on a tree that differs from the reference (public anchor gone)
    self.assumptions: List[str] = []
    self.not_decided: List[str] = []
    self.rules_applied: Dict[str, str] = {}
    self.functions_analysed: set = set()
    self.extra: Dict[str, Any] = {}
    self.t0 = time.time()

  # --- recording
  def _where(self, where):
    if isinstance(where, FuncInfo):
      self.functions_analysed.add(f'{where.module.relpath}:{where.qualname}')
      return where.module.relpath, where.qualname, where.node.lineno
    if isinstance(where, ClassInfo):
      return where.module.relpath, where.qualname, where.node.lineno
    if isinstance(where, Module):
      return where.relpath, '<module>', 1
    if isinstance(where, tuple):
      if len(where) == 2:
        return where[0], where[1], 0
      return where
    raise TypeError(where)

  def rule(self, rid: str, text: str):
    self.rules_applied[rid] = text

  def _module_changed(self, module) -> bool:
    """Some function of the module is not as on the reference tree (a rule located in one function may read its neighbours)."""
    cache = self.__dict__.setdefault('_modchg_cache', {})
    if module.relpath not in cache:
      from fjsa import shapes
      raw = module.__dict__.get('_raw_funcs') or shapes.raw_functions(module.src)
      module.__dict__['_raw_funcs'] = raw
      ref = {k.split(':', 1)[1] for k in shapes.table() if k.startswith(module.relpath + ':')}
      cache[module.relpath] = set(raw) != ref or any(shapes.distance(module.relpath, q, n) != 0 for q, n in raw.items())
    return cache[module.relpath]

  def _shape_distance(self, fi):
    cache = self.__dict__.setdefault('_shape_cache', {})
    k = id(fi.node)
    if k not in cache:
      from fjsa import shapes
      ds = []
      f = fi
      # the function itself and the functions it is nested in (a closure is judged with its builder)
      raw = fi.module.__dict__.setdefault('_raw_funcs', None)
      if raw is None:
        raw = fi.module.__dict__['_raw_funcs'] = shapes.raw_functions(fi.module.src)
      node = raw.get(fi.qualname)
      cur = shapes.distance(fi.module.relpath, fi.qualname, node) if node is not None else None
      if cur is not None and node is not None:
        # code moved into (or out of) a function the reference tree does not have: a restructuring, however few statements
        # of this function changed
        from fjsa import inline
        known = inline.known_defs(fi.module.relpath) or set()
        module_defs = {q.split('.')[-1] for q in raw}
        import ast as _ast
        for x in _ast.walk(node):
          nm = None
          if isinstance(x, _ast.Call):
            if isinstance(x.func, _ast.Name):
              nm = x.func.id
            elif isinstance(x.func, _ast.Attribute) and isinstance(x.func.value, _ast.Name) and x.func.value.id in ('self', 'cls'):
              nm = x.func.attr
          elif isinstance(x, (_ast.FunctionDef, _ast.AsyncFunctionDef)) and x is not node:
            nm = x.name
          if nm is not None and nm in module_defs and nm not in known:
            cur = None
            break
      cache[k] = cur
    return cache[k]

  def ob(self, rule: str, where, construct, ok, detail: str = '', node=None,
         nontrivial: bool = True, advisory: bool = False, facts=None, exact: bool = False) -> bool:
    f, q, ln = self._where(where)
    if node is not None and getattr(node, 'lineno', None):
      ln = node.lineno
    status = 'ok' if ok else 'violation'
    changed = False
    if ok is None:
      status = 'inconclusive'
      if isinstance(where, FuncInfo):
        d0 = self._shape_distance(where)
        changed = d0 is None or d0 > 0 or self._module_changed(where.module)
    if status == 'violation' and isinstance(where, FuncInfo) and not exact:
      # A pattern rule that does not find its construct in a function that was restructured far beyond a local edit does not
      # describe that code any more: the verdict is withheld (INCONCLUSIVE) instead of claiming a violation. Rules whose
      # evidence does not depend on the shape of the function (exact=True: purity, donation, forwarding, lints ...) are exempt.
      from fjsa import shapes
      d = self._shape_distance(where)
      probe = Ob(rule, f, q, construct_text(construct), 'violation', norm_text(detail), ln, nontrivial, advisory, facts)
      is_known = any(finding_matches(e, self.prop, probe) for e in load_known_findings() if e.get('status') == 'known')
      if (d is None or d > shapes.THRESHOLD) and not is_known:
        status = 'inconclusive'
        changed = True
        detail = (f'[verdict withheld: {where.qualname} ' + ('is not a function of the reference tree' if d is None else
                  f'differs from its reference shape in {d} statements (> {shapes.THRESHOLD})') +
                  ': the rule\'s pattern no longer describes it] ') + detail
    self.obs.append(
        Ob(rule, f, q, construct_text(construct), status, norm_text(detail), ln,
           nontrivial, advisory, facts, changed))
    return bool(ok)

  def inconclusive(self, rule: str, where, construct, reason: str, node=None):
    self.ob(rule, where, construct, None, reason, node=node)

  def floor(self, rule: str, what: str, count: int, minimum: int):
    """A rule matching fewer instances than confirmed by hand is broken."""
    self.floors.append(f'{rule}:{what}={count}(>={minimum})')
    if count < minimum:
      self.errors.append(
          f'instance-floor {rule} {what}: found {count}, expected >= {minimum}')

  def assume(self, text: str):
    if text not in self.assumptions:
      self.assumptions.append(text)

  def undecided(self, text: str):
    if text not in self.not_decided:
      self.not_decided.append(text)

  def error(self, text: str, hard: bool = False):
    self.errors.append(text)
    if hard:
      self.hard_errors.add(text)

  def tree_changed(self) -> bool:
    """Some library function is not as on the reference tree (fjsa/known_shapes.json), or a module was added or removed."""
    if '_tree_changed' not in self.__dict__:
      from fjsa import shapes
      ref_files = {k.split(':', 1)[0] for k in shapes.table()}
      mods = {m.relpath: m for m in self.repo.modules.values()}
      changed = bool(ref_files - set(mods))
      for rel, m in mods.items():
        if changed:
          break
        if rel in ref_files:
          changed = self._module_changed(m)
        elif rel.startswith('fedjax/'):
          changed = bool(shapes.raw_functions(m.src))   # a module the reference tree does not have (and that defines functions)
      self._tree_changed = changed
    return self._tree_changed

  def analysed(self, fi: FuncInfo):
    self.functions_analysed.add(f'{fi.module.relpath}:{fi.qualname}')


def load_known_findings() -> List[Dict[str, Any]]:
  p = os.path.join(VERIF_ROOT, 'known_findings.json')
  if not os.path.exists(p):
    return []
  with open(p) as f:
    return json.load(f).get('findings', [])


def finding_matches(entry: Dict[str, Any], prop: str, ob: Ob) -> bool:
  if entry.get('status') != 'known':
    return False
  if entry.get('property') != prop or entry.get('rule') != ob.rule:
    return False
  if entry.get('file') != ob.file or entry.get('function') != ob.function:
    return False
  return norm_text(entry.get('construct', '')) == ob.construct


def classify(check: Check) -> str:
  """'violation' | 'failed' (exit 2) | 'not-decided' (exit 0 with NOT-DECIDED lines) | 'silent' - the same decision finish() makes."""
  known = load_known_findings()
  if any(o.status == 'violation' and not o.advisory and not any(finding_matches(e, check.prop, o) for e in known) for o in check.obs):
    return 'violation'
  strict = os.environ.get('FJSA_UNDECIDED_EXIT', '0') == '2'
  inconc = [o for o in check.obs if o.status == 'inconclusive']
  tree_changed = (not strict) and bool(check.errors) and check.tree_changed()
  if any(strict or not o.changed for o in inconc) or any(not tree_changed or e in check.hard_errors for e in check.errors):
    return 'failed'
  return 'not-decided' if inconc or check.errors else 'silent'


def finish(check: Check, evidence_dir: str, replay_filter: Optional[Dict] = None,
           selftest: Optional[Dict] = None, quiet: bool = False) -> int:
  """Prints verdict lines, writes evidence, returns the exit code."""
  prop = check.prop
  known = load_known_findings()
  os.makedirs(evidence_dir, exist_ok=True)
  replay_dir = os.path.join(evidence_dir, 'replay')
  viol = [o for o in check.obs if o.status == 'violation' and not o.advisory]
  advisory = [o for o in check.obs if o.status == 'violation' and o.advisory]
  inconc = [o for o in check.obs if o.status == 'inconclusive']
  if replay_filter is not None:
    viol = [o for o in viol if o.key(prop) == replay_filter.get('key')]
    inconc = []
  new_viol, known_hits = [], []
  for o in viol:
    hit = next((e for e in known if finding_matches(e, prop, o)), None)
    if hit is not None:
      known_hits.append((o, hit))
    else:
      new_viol.append(o)
  lines = []
  for o, hit in known_hits:
    lines.append(f'KNOWN-FINDING: property={prop} {o.rule} {o.file}:{o.function} '
                 f'[{o.construct}] - {hit.get("what", o.detail)}')
  replay_paths = []
  if new_viol:
    os.makedirs(replay_dir, exist_ok=True)
  seen_keys = set()
  for o in new_viol:
    k = o.key(prop)
    if k in seen_keys:
      continue
    seen_keys.add(k)
    h = hashlib.sha256(k.encode()).hexdigest()[:12]
    rp = os.path.join(replay_dir, f'{prop}-{h}.json')
    with open(rp, 'w') as f:
      json.dump({'property': prop, 'key': k, 'rule': o.rule, 'file': o.file,
                 'function': o.function, 'construct': o.construct,
                 'line': o.line, 'detail': o.detail}, f, indent=1)
    replay_paths.append(rp)
    lines.append(f'VIOLATION property={prop} replay={rp}')
    lines.append(f'  {o.brief()}')
  for o in advisory:
    lines.append(f'ADVISORY: property={prop} {o.brief()}')
  # An obligation a rule cannot decide because the function was rewritten (it is not as on the reference tree and the rule does
  # not recognise the new code) is reported as NOT-DECIDED and recorded in the evidence, but it is not an alarm: the property
  # held on everything the rules could explore. An inconclusive obligation in a function that is unchanged can only be a defect
  # of the machinery and fails the run (exit 2), like a missing anchor or an unmet instance floor. FJSA_UNDECIDED_EXIT=2 makes
  # every undecided obligation fail the run.
  # The same holds for what the machinery itself cannot find: an unmet instance floor, an unrecognised anchor shape, a private or
  # nested helper that is gone, a rule that fails on code it was not written for. On the reference tree each of these is a defect
  # of the check (exit 2). On a tree that differs from the reference they say "this rule does not cover the rewritten code": NOT-DECIDED.
  # A public anchor (module, public class / function / method) that is gone always fails the run.
  strict = os.environ.get('FJSA_UNDECIDED_EXIT', '0') == '2'
  tree_changed = (not strict) and bool(check.errors) and check.tree_changed()
  blocking = [o for o in inconc if strict or not o.changed]
  blocking_errors = [e for e in check.errors if not tree_changed or e in check.hard_errors]
  code = 0
  if new_viol:
    code = 1
  elif blocking_errors or blocking:
    code = 2
  for e in check.errors:
    lines.append((f'ANALYSIS-ERROR property={prop} reason=' if e in blocking_errors else f'NOT-DECIDED: property={prop} ') + e)
  for o in inconc:
    lines.append((f'ANALYSIS-INCONCLUSIVE property={prop} ' if o in blocking else f'NOT-DECIDED: property={prop} ') + o.brief())
  if selftest is not None and selftest.get('failures'):
    for fmsg in selftest['failures']:
      lines.append(f'ANALYSIS-ERROR property={prop} reason=selftest:{fmsg}')
    if code == 0:
      code = 2
  n_ob = len([o for o in check.obs if not o.advisory])
  n_ok = len([o for o in check.obs if o.status == 'ok' and not o.advisory])
  distinct = len({o.key(prop) for o in check.obs if o.nontrivial and not o.advisory})
  samples = []
  picked_rules = set()
  for o in check.obs:
    if o.rule in picked_rules and len(samples) >= 6:
      continue
    if len(samples) >= 14:
      break
    if o.rule in picked_rules and o.status == 'ok':
      continue
    picked_rules.add(o.rule)
    samples.append({'rule': o.rule, 'where': f'{o.file}:{o.line} {o.function}',
                    'construct': o.construct, 'status': o.status,
                    'facts': o.detail})
  by_rule: Dict[str, Dict[str, int]] = {}
  for o in check.obs:
    d = by_rule.setdefault(o.rule, {'obligations': 0, 'ok': 0})
    d['obligations'] += 1
    d['ok'] += 1 if o.status == 'ok' else 0
  explanation = (
      f'Static analysis of /repo sources (ast + hand-built CFG/reaching-definitions '
      f'+ repo-specific resolver); no fedjax code is imported or executed. '
      f'Rules applied: ' + '; '.join(f'{k}: {v}' for k, v in check.rules_applied.items())
      + '. NOT decided by this check: ' + ('; '.join(check.not_decided) or 'n/a') + '.')
  ev = {
      'property_id': prop,
      'tier': check.tier,
      'seed': int(check.seed),
      'level': 'other',
      'coverage': {
          'explanation': explanation,
          'obligations': n_ob,
          'discharged': n_ok,
          'evaluations': max(n_ob, 1),
          'distinct_nontrivial': distinct,
          'rule': ('one obligation per (rule, function, construct) instance discovered in the '
                   'current source; non-trivial = decided through resolution/dataflow, not a bare '
                   'presence test; distinct = distinct (rule,file,function,construct) keys'),
          'samples': samples or [{'note': 'no obligations'}],
          'units_parsed': len(check.repo.modules),
          'functions_analysed': sorted(check.functions_analysed),
          'by_rule': by_rule,
          'instance_floors': check.floors,
          'known_findings': [o.key(prop) for o, _ in known_hits],
          'advisory': [o.brief() for o in advisory],
          'violations_detail': [o.brief() for o in new_viol],
          'inconclusive': [o.brief() for o in inconc],
          'not_decided_rewritten_functions': [o.brief() for o in inconc if o not in blocking],
          'analysis_errors': list(blocking_errors),
          'not_decided_changed_tree': [e for e in check.errors if e not in blocking_errors],
          'exhaustive': False,
      },
      'assumptions': check.assumptions,
      'wall_s': round(time.time() - check.t0, 3),
      'violations': len(seen_keys),
  }
  ev['coverage'].update(check.extra)
  if selftest is not None:
    ev['coverage']['selftest'] = selftest
  if replay_filter is None:
    with open(os.path.join(evidence_dir, f'{prop}.json'), 'w') as f:
      json.dump(ev, f, indent=1, sort_keys=False)
  if not quiet:
    for ln in lines:
      print(ln)
    print(f'{prop} [{check.tier}] obligations={n_ob} discharged={n_ok} '
          f'violations={len(seen_keys)} known={len(known_hits)} '
          f'inconclusive={len(inconc)} errors={len(check.errors)} '
          f'functions={len(check.functions_analysed)} wall={ev["wall_s"]}s -> exit {code}')
  return code
