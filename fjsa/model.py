"""Program model of the repository under analysis.

Parses every non-test python unit of the repo, builds lexical scopes with their
bindings, and resolves names / attribute chains to definitions:

  * repo functions / classes (through ``from x import y``, module aliases,
    module-level aliases such as ``ServerState = fed_avg.ServerState``),
  * third-party callees by dotted path (``jnp.where`` -> ``jax.numpy.where``),
  * transformation wrappers (``jax.jit(f, donate_argnums=0)``,
    ``@functools.partial(jax.pmap, donate_argnums=0)``).

Nothing here imports or executes code of the analysed repository.
"""
from __future__ import annotations

import ast
import hashlib
from fjsa import canon
import os
from dataclasses import dataclass, field
from typing import Dict, Iterator, List, Optional, Sequence, Tuple


class AnalysisError(Exception):
  """The analyser cannot do its job (anchor missing, parse failure, ...)."""


class AnchorMissing(AnalysisError):
  """`public` is False for private helpers (leading underscore) and functions nested in functions: implementation details that a
  behaviour-preserving refactor may rename, inline or remove."""

  def __init__(self, msg: str, public: bool = True):
    super().__init__(msg)
    self.public = public


def _private_name(qualname: str) -> bool:
  return any(c.startswith('_') and not (c.startswith('__') and c.endswith('__')) for c in qualname.split('.'))


ROOT_PACKAGES = ('fedjax', 'examples', 'experiments')
EXCLUDE_SUFFIXES = ('_test.py', '_benchmark.py')

BUILTIN_NAMES = set(dir(__builtins__)) if not isinstance(
    __builtins__, dict) else set(__builtins__)


@dataclass
class Binding:
  kind: str  # import-module | import-symbol | def | class | assign | param |
  #            for | with | except | aug | comp | del | global | nonlocal | walrus
  node: ast.AST
  name: str
  value: Optional[ast.AST] = None  # value expr for simple `name = value`
  index: Optional[Tuple[int, ...]] = None  # position in a tuple-unpack target
  target: Optional[str] = None  # import target (dotted)
  symbol: Optional[str] = None  # import symbol


class Scope:
  """A lexical scope: module, class, function, lambda or comprehension."""

  def __init__(self, kind: str, node: ast.AST, parent: Optional['Scope'],
               name: str, module: 'Module'):
    self.kind = kind
    self.node = node
    self.parent = parent
    self.name = name
    self.module = module
    self.bindings: Dict[str, List[Binding]] = {}
    self.children: List['Scope'] = []
    self.globals_declared: set = set()
    self.nonlocals_declared: set = set()
    if parent is not None:
      parent.children.append(self)

  @property
  def qualname(self) -> str:
    parts = []
    s = self
    while s is not None and s.kind != 'module':
      parts.append(s.name)
      s = s.parent
    return '.'.join(reversed(parts))

  def add(self, b: Binding):
    self.bindings.setdefault(b.name, []).append(b)

  def lookup_scope(self, name: str) -> Optional['Scope']:
    """Finds the scope that binds `name` as seen from this scope."""
    s = self
    first = True
    while s is not None:
      if s.kind == 'class' and not first:
        s = s.parent
        continue
      if name in s.globals_declared:
        return s.module.scope
      if name in s.bindings and name not in s.nonlocals_declared:
        return s
      first = False
      s = s.parent
    return None

  def enclosing_function(self) -> Optional['Scope']:
    s = self
    while s is not None and s.kind not in ('function', 'lambda'):
      s = s.parent
    return s

  def __repr__(self):
    return f'<Scope {self.kind} {self.module.name}:{self.qualname}>'


@dataclass
class Wrapper:
  """A transformation applied to a function: jit / pmap / grad / vmap ..."""
  path: str  # e.g. 'jax.jit'
  kwargs: Dict[str, ast.AST] = field(default_factory=dict)
  node: Optional[ast.AST] = None

  def const_kw(self, name: str):
    v = self.kwargs.get(name)
    if v is None:
      return None
    try:
      return ast.literal_eval(v)
    except Exception:  # pylint: disable=broad-except
      return None

  def donated(self) -> Tuple[int, ...]:
    v = self.const_kw('donate_argnums')
    if v is None:
      return ()
    if isinstance(v, int):
      return (v,)
    return tuple(v)


class FuncInfo:

  def __init__(self, node, scope: Scope, module: 'Module'):
    self.node = node
    self.scope = scope
    self.module = module
    self.wrappers: List[Wrapper] = []  # from decorators, outermost first

  @property
  def qualname(self) -> str:
    return self.scope.qualname

  @property
  def name(self) -> str:
    return self.scope.name

  @property
  def params(self) -> List[str]:
    a = self.node.args
    names = [x.arg for x in a.posonlyargs + a.args]
    if a.vararg:
      names.append(a.vararg.arg)
    names += [x.arg for x in a.kwonlyargs]
    if a.kwarg:
      names.append(a.kwarg.arg)
    return names

  @property
  def positional_params(self) -> List[str]:
    a = self.node.args
    return [x.arg for x in a.posonlyargs + a.args]

  def param_annotation(self, name: str) -> Optional[ast.AST]:
    a = self.node.args
    for x in a.posonlyargs + a.args + a.kwonlyargs:
      if x.arg == name:
        return x.annotation
    return None

  def param_default(self, name: str) -> Optional[ast.AST]:
    a = self.node.args
    pos = a.posonlyargs + a.args
    defaults = [None] * (len(pos) - len(a.defaults)) + list(a.defaults)
    for x, d in zip(pos, defaults):
      if x.arg == name:
        return d
    for x, d in zip(a.kwonlyargs, a.kw_defaults):
      if x.arg == name:
        return d
    return None

  @property
  def loc(self) -> str:
    return f'{self.module.relpath}:{self.node.lineno}'

  @property
  def is_generator(self) -> bool:
    for n in walk_local(self.node):
      if isinstance(n, (ast.Yield, ast.YieldFrom)):
        return True
    return False

  def nested(self, name: str) -> 'FuncInfo':
    for c in self.scope.children:
      if c.kind == 'function' and c.name == name:
        return self.module.funcs_by_node[c.node]
    raise AnchorMissing(f'{self.module.name}:{self.qualname}.{name}', public=False)

  def __repr__(self):
    return f'<Func {self.module.name}:{self.qualname}>'


class ClassInfo:

  def __init__(self, node: ast.ClassDef, scope: Scope, module: 'Module'):
    self.node = node
    self.scope = scope
    self.module = module

  @property
  def qualname(self) -> str:
    return self.scope.qualname

  @property
  def name(self) -> str:
    return self.node.name

  @property
  def fields(self) -> List[Tuple[str, Optional[ast.AST], Optional[ast.AST]]]:
    """Annotated class-level fields in order: (name, annotation, default)."""
    out = []
    for st in self.node.body:
      if isinstance(st, ast.AnnAssign) and isinstance(st.target, ast.Name):
        out.append((st.target.id, st.annotation, st.value))
    return out

  @property
  def methods(self) -> Dict[str, FuncInfo]:
    out = {}
    for c in self.scope.children:
      if c.kind == 'function':
        out[c.name] = self.module.funcs_by_node[c.node]
    return out

  def method(self, name: str) -> FuncInfo:
    m = self.methods.get(name)
    if m is None:
      raise AnchorMissing(f'{self.module.name}:{self.qualname}.{name}', public=not _private_name(f'{self.qualname}.{name}'))
    return m

  @property
  def loc(self) -> str:
    return f'{self.module.relpath}:{self.node.lineno}'

  def __repr__(self):
    return f'<Class {self.module.name}:{self.qualname}>'


@dataclass
class Ref:
  """Result of resolving an expression to a definition."""
  kind: str  # func | class | module | ext | param | local | attr | const | unknown
  func: Optional[FuncInfo] = None
  cls: Optional[ClassInfo] = None
  path: Optional[str] = None  # ext dotted path or module name
  name: Optional[str] = None
  scope: Optional[Scope] = None
  wrappers: List[Wrapper] = field(default_factory=list)  # outermost first
  bound_args: List[ast.AST] = field(default_factory=list)  # functools.partial
  bound_kwargs: Dict[str, ast.AST] = field(default_factory=dict)
  base: Optional['Ref'] = None  # for attr
  node: Optional[ast.AST] = None
  bindings: List[Binding] = field(default_factory=list)

  def donated(self) -> Tuple[int, ...]:
    out = ()
    for w in self.wrappers:
      if w.path in ('jax.jit', 'jax.pmap'):
        out = out + w.donated()
    return out

  def is_ext(self, *paths: str) -> bool:
    return self.kind == 'ext' and self.path in paths

  def describe(self) -> str:
    if self.kind == 'func':
      w = ''.join(f'{x.path}(' for x in self.wrappers)
      return f'{w}{self.func.module.name}:{self.func.qualname}' + ')' * len(
          self.wrappers)
    if self.kind == 'class':
      return f'class {self.cls.module.name}:{self.cls.qualname}'
    if self.kind in ('ext', 'module'):
      return f'{self.kind} {self.path}'
    return f'{self.kind} {self.name or ""}'


TRANSFORMS = {
    'jax.jit', 'jax.pmap', 'jax.grad', 'jax.vmap', 'jax.value_and_grad',
    'jax.checkpoint', 'jax.remat'
}


class Module:

  def __init__(self, name: str, path: str, relpath: str, src: str):
    self.name = name
    self.path = path
    self.relpath = relpath
    self.src = src
    self.digest = hashlib.sha256(src.encode()).hexdigest()[:16]
    self.tree = canon.canonicalise(ast.parse(src, filename=path), relpath=relpath)
    self.scope = Scope('module', self.tree, None, name, self)
    self.funcs_by_node: Dict[ast.AST, FuncInfo] = {}
    self.classes_by_node: Dict[ast.AST, ClassInfo] = {}
    self.scope_of_node: Dict[ast.AST, Scope] = {}
    self.parent_of: Dict[ast.AST, ast.AST] = {}
    for parent in ast.walk(self.tree):
      for child in ast.iter_child_nodes(parent):
        self.parent_of[child] = parent
    _ScopeBuilder(self).build()

  @property
  def is_package(self) -> bool:
    return os.path.basename(self.path) == '__init__.py'

  def functions(self) -> Iterator[FuncInfo]:
    return iter(self.funcs_by_node.values())

  def classes(self) -> Iterator[ClassInfo]:
    return iter(self.classes_by_node.values())

  def func(self, qualname: str) -> FuncInfo:
    for f in self.funcs_by_node.values():
      if f.qualname == qualname:
        return f
    parent = qualname.rsplit('.', 1)[0] if '.' in qualname else None
    nested = parent is not None and any(f.qualname == parent for f in self.funcs_by_node.values())
    raise AnchorMissing(f'{self.name}:{qualname}', public=not nested and not _private_name(qualname))

  def cls(self, qualname: str) -> ClassInfo:
    for c in self.classes_by_node.values():
      if c.qualname == qualname:
        return c
    raise AnchorMissing(f'{self.name}:{qualname}', public=not _private_name(qualname))

  def enclosing_scope(self, node: ast.AST) -> Scope:
    n = node
    while n is not None:
      if n in self.scope_of_node and n is not node:
        return self.scope_of_node[n]
      n = self.parent_of.get(n)
    return self.scope

  def enclosing_func(self, node: ast.AST) -> Optional[FuncInfo]:
    n = self.parent_of.get(node)
    while n is not None:
      if n in self.funcs_by_node:
        return self.funcs_by_node[n]
      n = self.parent_of.get(n)
    return None

  def enclosing_stmt(self, node: ast.AST) -> Optional[ast.stmt]:
    n = node
    while n is not None and not isinstance(n, ast.stmt):
      n = self.parent_of.get(n)
    return n

  def text(self, node: ast.AST) -> str:
    return ast.unparse(node)


def walk_local(node: ast.AST, include_lambdas: bool = True) -> Iterator[ast.AST]:
  """Walks a function/class body without entering nested defs/classes."""
  stack = list(ast.iter_child_nodes(node))
  while stack:
    n = stack.pop()
    yield n
    if isinstance(n, (ast.FunctionDef, ast.AsyncFunctionDef, ast.ClassDef)):
      # decorators / defaults are evaluated in the enclosing scope
      for d in n.decorator_list:
        stack.append(d)
      if not isinstance(n, ast.ClassDef):
        for d in n.args.defaults + [x for x in n.args.kw_defaults if x]:
          stack.append(d)
      continue
    if isinstance(n, ast.Lambda) and not include_lambdas:
      continue
    stack.extend(ast.iter_child_nodes(n))


def target_names(t: ast.AST,
                 index: Tuple[int, ...] = ()) -> Iterator[Tuple[str, Tuple[int, ...], ast.AST]]:
  """Yields (name, index path, node) for names bound by an assignment target."""
  if isinstance(t, ast.Name):
    yield t.id, index, t
  elif isinstance(t, (ast.Tuple, ast.List)):
    for i, e in enumerate(t.elts):
      yield from target_names(e, index + (i,))
  elif isinstance(t, ast.Starred):
    yield from target_names(t.value, index + (-1,))
  # Attribute / Subscript targets bind no name.


class _ScopeBuilder(ast.NodeVisitor):

  def __init__(self, module: Module):
    self.m = module
    self.scope = module.scope

  def build(self):
    self.m.scope_of_node[self.m.tree] = self.m.scope
    for st in self.m.tree.body:
      self.visit(st)

  # --- helpers
  def _push(self, kind, node, name):
    s = Scope(kind, node, self.scope, name, self.m)
    self.m.scope_of_node[node] = s
    self.scope = s
    return s

  def _pop(self):
    self.scope = self.scope.parent

  def _bind_target(self, t, kind, node, value=None):
    for name, idx, _ in target_names(t):
      self.scope.add(
          Binding(kind, node, name, value=value, index=idx if idx else None))

  # --- definitions
  def visit_FunctionDef(self, node):
    self.scope.add(Binding('def', node, node.name))
    for d in node.decorator_list:
      self.visit(d)
    for d in node.args.defaults + [x for x in node.args.kw_defaults if x]:
      self.visit(d)
    s = self._push('function', node, node.name)
    fi = FuncInfo(node, s, self.m)
    self.m.funcs_by_node[node] = fi
    a = node.args
    for x in a.posonlyargs + a.args + a.kwonlyargs:
      s.add(Binding('param', x, x.arg))
    if a.vararg:
      s.add(Binding('param', a.vararg, a.vararg.arg))
    if a.kwarg:
      s.add(Binding('param', a.kwarg, a.kwarg.arg))
    for st in node.body:
      self.visit(st)
    self._pop()

  visit_AsyncFunctionDef = visit_FunctionDef

  def visit_Lambda(self, node):
    for d in node.args.defaults + [x for x in node.args.kw_defaults if x]:
      self.visit(d)
    s = self._push('lambda', node, '<lambda>')
    a = node.args
    for x in a.posonlyargs + a.args + a.kwonlyargs:
      s.add(Binding('param', x, x.arg))
    if a.vararg:
      s.add(Binding('param', a.vararg, a.vararg.arg))
    if a.kwarg:
      s.add(Binding('param', a.kwarg, a.kwarg.arg))
    self.visit(node.body)
    self._pop()

  def visit_ClassDef(self, node):
    self.scope.add(Binding('class', node, node.name))
    for d in node.decorator_list + node.bases + [k.value for k in node.keywords]:
      self.visit(d)
    s = self._push('class', node, node.name)
    self.m.classes_by_node[node] = ClassInfo(node, s, self.m)
    for st in node.body:
      self.visit(st)
    self._pop()

  def _comp(self, node, elts):
    # first iterable is evaluated in the enclosing scope
    self.visit(node.generators[0].iter)
    s = self._push('comp', node, '<comp>')
    for i, g in enumerate(node.generators):
      for name, idx, _ in target_names(g.target):
        s.add(Binding('comp', g, name, value=g.iter, index=idx if idx else None))
      if i > 0:
        self.visit(g.iter)
      for c in g.ifs:
        self.visit(c)
    for e in elts:
      self.visit(e)
    self._pop()

  def visit_ListComp(self, node):
    self._comp(node, [node.elt])

  visit_SetComp = visit_ListComp
  visit_GeneratorExp = visit_ListComp

  def visit_DictComp(self, node):
    self._comp(node, [node.key, node.value])

  # --- bindings
  def visit_Import(self, node):
    for a in node.names:
      if a.asname:
        self.scope.add(
            Binding('import-module', node, a.asname, target=a.name))
      else:
        top = a.name.split('.')[0]
        self.scope.add(Binding('import-module', node, top, target=top))

  def visit_ImportFrom(self, node):
    mod = node.module or ''
    if node.level:
      base = self.m.name.split('.')
      if not self.m.is_package:
        base = base[:-1]
      base = base[:len(base) - (node.level - 1)]
      mod = '.'.join(base + ([mod] if mod else []))
    for a in node.names:
      self.scope.add(
          Binding(
              'import-symbol',
              node,
              a.asname or a.name,
              target=mod,
              symbol=a.name))

  def visit_Assign(self, node):
    self.visit(node.value)
    for t in node.targets:
      if isinstance(t, ast.Name):
        self.scope.add(Binding('assign', node, t.id, value=node.value))
      else:
        self._bind_target(t, 'assign', node, value=node.value)
        self.visit(t)

  def visit_AnnAssign(self, node):
    if node.value is not None:
      self.visit(node.value)
    if isinstance(node.target, ast.Name):
      self.scope.add(
          Binding('assign', node, node.target.id, value=node.value))
    else:
      self.visit(node.target)

  def visit_AugAssign(self, node):
    self.visit(node.value)
    if isinstance(node.target, ast.Name):
      self.scope.add(Binding('aug', node, node.target.id, value=node.value))
    else:
      self.visit(node.target)

  def visit_NamedExpr(self, node):
    self.visit(node.value)
    s = self.scope
    while s.kind == 'comp':
      s = s.parent
    s.add(Binding('walrus', node, node.target.id, value=node.value))

  def visit_For(self, node):
    self.visit(node.iter)
    self._bind_target(node.target, 'for', node, value=node.iter)
    self.visit(node.target)
    for st in node.body + node.orelse:
      self.visit(st)

  visit_AsyncFor = visit_For

  def visit_With(self, node):
    for it in node.items:
      self.visit(it.context_expr)
      if it.optional_vars is not None:
        self._bind_target(it.optional_vars, 'with', node, value=it.context_expr)
        self.visit(it.optional_vars)
    for st in node.body:
      self.visit(st)

  visit_AsyncWith = visit_With

  def visit_ExceptHandler(self, node):
    if node.type is not None:
      self.visit(node.type)
    if node.name:
      self.scope.add(Binding('except', node, node.name))
    for st in node.body:
      self.visit(st)

  def visit_Delete(self, node):
    for t in node.targets:
      if isinstance(t, ast.Name):
        self.scope.add(Binding('del', node, t.id))
      else:
        self.visit(t)

  def visit_Global(self, node):
    self.scope.globals_declared.update(node.names)

  def visit_Nonlocal(self, node):
    self.scope.nonlocals_declared.update(node.names)


class Repo:
  """All analysed units of the repository at `root`."""

  def __init__(self, root: str, packages: Sequence[str] = ROOT_PACKAGES):
    self.root = os.path.abspath(root)
    self.modules: Dict[str, Module] = {}
    self.parse_errors: List[str] = []
    for pkg in packages:
      base = os.path.join(self.root, pkg)
      if not os.path.isdir(base):
        continue
      for dirpath, dirnames, filenames in os.walk(base):
        dirnames.sort()
        for fn in sorted(filenames):
          if not fn.endswith('.py') or fn.endswith(EXCLUDE_SUFFIXES):
            continue
          path = os.path.join(dirpath, fn)
          rel = os.path.relpath(path, self.root)
          parts = rel[:-3].split(os.sep)
          if parts[-1] == '__init__':
            parts = parts[:-1]
          name = '.'.join(parts)
          try:
            with open(path, encoding='utf-8') as f:
              src = f.read()
            self.modules[name] = Module(name, path, rel, src)
          except (SyntaxError, UnicodeDecodeError, OSError) as e:
            self.parse_errors.append(f'{rel}: {e}')
    if self.parse_errors:
      raise AnalysisError('parse-failure: ' + '; '.join(self.parse_errors))
    if 'fedjax' not in self.modules:
      raise AnalysisError(f'no fedjax package under {self.root}')
    self._resolving = set()
    canon.positionalise(self)

  # --- anchors
  def module(self, name: str) -> Module:
    m = self.modules.get(name)
    if m is None:
      raise AnchorMissing(f'module {name}')
    return m

  def func(self, module: str, qualname: str) -> FuncInfo:
    return self.module(module).func(qualname)

  def cls(self, module: str, qualname: str) -> ClassInfo:
    return self.module(module).cls(qualname)

  def all_functions(self) -> Iterator[FuncInfo]:
    for m in self.modules.values():
      yield from m.functions()

  def all_classes(self) -> Iterator[ClassInfo]:
    for m in self.modules.values():
      yield from m.classes()

  def library_modules(self) -> List[Module]:
    return [m for n, m in self.modules.items() if n.split('.')[0] == 'fedjax']

  # --- resolution
  def resolve_import(self, target: str, symbol: Optional[str], depth=0) -> Ref:
    """Resolves `import target` / `from target import symbol`."""
    if symbol is None:
      return Ref('module', path=target)
    full = f'{target}.{symbol}'
    if full in self.modules:
      return Ref('module', path=full)
    if target in self.modules:
      m = self.modules[target]
      if symbol in m.scope.bindings and depth < 8:
        return self._resolve_bindings(m.scope, symbol, depth + 1)
      return Ref('unknown', name=full)
    return Ref('ext', path=full)

  def _resolve_bindings(self, scope: Scope, name: str, depth=0) -> Ref:
    bs = scope.bindings.get(name, [])
    if not bs:
      return Ref('unknown', name=name)
    eff = [b for b in bs if b.kind != 'del']
    if len(eff) != 1:
      # Several binders: a local variable with several definitions.
      kinds = {b.kind for b in eff}
      if kinds == {'param'}:
        return Ref('param', name=name, scope=scope, bindings=eff)
      return Ref('local', name=name, scope=scope, bindings=eff)
    b = eff[0]
    m = scope.module
    if b.kind == 'import-module':
      return Ref('module', path=b.target)
    if b.kind == 'import-symbol':
      return self.resolve_import(b.target, b.symbol, depth)
    if b.kind == 'def':
      fi = m.funcs_by_node[b.node]
      r = Ref('func', func=fi, node=b.node)
      r.wrappers = self._decorator_wrappers(fi)
      return r
    if b.kind == 'class':
      return Ref('class', cls=m.classes_by_node[b.node], node=b.node)
    if b.kind == 'param':
      return Ref('param', name=name, scope=scope, bindings=[b], node=b.node)
    if b.kind == 'assign' and b.value is not None and b.index is None:
      key = (id(b.node), name)
      if key in self._resolving or depth > 12:
        return Ref('local', name=name, scope=scope, bindings=[b])
      self._resolving.add(key)
      try:
        val_scope = scope
        r = self.resolve(val_scope, b.value, depth + 1)
      finally:
        self._resolving.discard(key)
      if r.kind in ('func', 'class', 'module', 'ext', 'wrapped'):
        return r
      return Ref('local', name=name, scope=scope, bindings=[b], node=b.node)
    return Ref('local', name=name, scope=scope, bindings=[b], node=b.node)

  def _decorator_wrappers(self, fi: FuncInfo) -> List[Wrapper]:
    out = []
    scope = fi.scope.parent
    for d in fi.node.decorator_list:
      w = self._as_wrapper(scope, d)
      if w is not None:
        out.append(w)
    fi.wrappers = out
    return list(out)

  def _as_wrapper(self, scope: Scope, d: ast.AST) -> Optional[Wrapper]:
    """`jax.jit` / `functools.partial(jax.jit, k=v)` / `jax.jit(...)`-less."""
    if isinstance(d, ast.Call):
      f = self.resolve(scope, d.func)
      if f.is_ext('functools.partial') and d.args:
        inner = self.resolve(scope, d.args[0])
        if inner.kind == 'ext':
          return Wrapper(inner.path, {k.arg: k.value for k in d.keywords if k.arg},
                         d)
      return None
    r = self.resolve(scope, d)
    if r.kind == 'ext':
      return Wrapper(r.path, {}, d)
    return None

  def resolve(self, scope: Scope, expr: ast.AST, depth=0) -> Ref:
    """Resolves an expression (evaluated in `scope`) to a definition."""
    if isinstance(expr, ast.Name):
      s = scope.lookup_scope(expr.id)
      if s is None:
        if expr.id in BUILTIN_NAMES:
          return Ref('ext', path=f'builtins.{expr.id}', node=expr)
        return Ref('unknown', name=expr.id, node=expr)
      r = self._resolve_bindings(s, expr.id, depth)
      return r
    if isinstance(expr, ast.Attribute):
      base = self.resolve(scope, expr.value, depth)
      if base.kind == 'module':
        full = f'{base.path}.{expr.attr}'
        if full in self.modules:
          return Ref('module', path=full, node=expr)
        if base.path in self.modules:
          m = self.modules[base.path]
          if expr.attr in m.scope.bindings:
            return self._resolve_bindings(m.scope, expr.attr, depth + 1)
          return Ref('unknown', name=full, node=expr)
        return Ref('ext', path=full, node=expr)
      if base.kind == 'ext':
        return Ref('ext', path=f'{base.path}.{expr.attr}', node=expr)
      if base.kind == 'class':
        meths = base.cls.methods
        if expr.attr in meths:
          fi = meths[expr.attr]
          r = Ref('func', func=fi, node=expr, base=base)
          r.wrappers = self._decorator_wrappers(fi)
          return r
        return Ref('attr', name=expr.attr, base=base, node=expr)
      if base.kind == 'param' and base.name in ('self', 'cls'):
        fscope = base.scope
        if fscope is not None and fscope.parent is not None and fscope.parent.kind == 'class':
          ci = scope.module.classes_by_node.get(fscope.parent.node)
          if ci is None:
            ci = fscope.module.classes_by_node.get(fscope.parent.node)
          if ci is not None:
            meth = self.find_method(ci, expr.attr)
            if meth is not None:
              r = Ref('func', func=meth, node=expr, base=Ref('class', cls=ci))
              r.wrappers = self._decorator_wrappers(meth)
              return r
            return Ref('attr', name=expr.attr, base=Ref('class', cls=ci),
                       node=expr)
      return Ref('attr', name=expr.attr, base=base, node=expr)
    if isinstance(expr, ast.Call):
      f = self.resolve(scope, expr.func, depth)
      if f.kind == 'ext' and f.path in TRANSFORMS and expr.args:
        inner = self.resolve(scope, expr.args[0], depth)
        w = Wrapper(f.path, {k.arg: k.value for k in expr.keywords if k.arg},
                    expr)
        if inner.kind == 'func':
          out = Ref('func', func=inner.func, node=expr)
          out.wrappers = [w] + list(inner.wrappers)
          out.bound_args = list(inner.bound_args)
          out.bound_kwargs = dict(inner.bound_kwargs)
          return out
        out = Ref('wrapped', node=expr, base=inner)
        out.wrappers = [w] + list(inner.wrappers)
        return out
      if f.is_ext('functools.partial') and expr.args:
        inner = self.resolve(scope, expr.args[0], depth)
        if inner.kind in ('func', 'ext', 'wrapped'):
          out = Ref(inner.kind, func=inner.func, path=inner.path, node=expr,
                    base=inner.base)
          out.wrappers = list(inner.wrappers)
          out.bound_args = list(inner.bound_args) + list(expr.args[1:])
          out.bound_kwargs = dict(inner.bound_kwargs)
          out.bound_kwargs.update({k.arg: k.value for k in expr.keywords if k.arg})
          return out
      return Ref('call', node=expr, base=f)
    if isinstance(expr, ast.Constant):
      return Ref('const', node=expr)
    if isinstance(expr, ast.Lambda):
      return Ref('lambda', node=expr, scope=scope)
    return Ref('unknown', node=expr)

  def find_method(self, ci: ClassInfo, name: str, _depth=0) -> Optional[FuncInfo]:
    if name in ci.methods:
      return ci.methods[name]
    if _depth > 6:
      return None
    for b in ci.node.bases:
      r = self.resolve(ci.scope.parent, b)
      if r.kind == 'class':
        m = self.find_method(r.cls, name, _depth + 1)
        if m is not None:
          return m
    return None

  def class_bases(self, ci: ClassInfo) -> List[Ref]:
    return [self.resolve(ci.scope.parent, b) for b in ci.node.bases]

  def subclasses_of(self, base: ClassInfo) -> List[ClassInfo]:
    out = []
    for c in self.all_classes():
      seen = set()
      stack = [c]
      while stack:
        k = stack.pop()
        if id(k) in seen:
          continue
        seen.add(id(k))
        for r in self.class_bases(k):
          if r.kind == 'class':
            if r.cls is base:
              if c is not base and c not in out:
                out.append(c)
            stack.append(r.cls)
    return out

  def ext_path(self, scope: Scope, expr: ast.AST) -> Optional[str]:
    r = self.resolve(scope, expr)
    return r.path if r.kind == 'ext' else None

  def callee(self, scope: Scope, call: ast.Call) -> Ref:
    return self.resolve(scope, call.func)

  def scope_of(self, module: Module, node: ast.AST) -> Scope:
    """Scope in which `node` (an expression/statement) is evaluated."""
    n = node
    first = True
    while n is not None:
      if not first and n in module.scope_of_node:
        sc = module.scope_of_node[n]
        return sc
      # A def's decorators/defaults evaluate in the parent scope; handled by
      # callers passing the def's parent explicitly when needed.
      first = False
      n = module.parent_of.get(n)
    return module.scope


def const_str(repo: Repo, scope: Scope, expr: ast.AST) -> Optional[str]:
  """Evaluates a string constant (literal or module-level constant name)."""
  if isinstance(expr, ast.Constant) and isinstance(expr.value, str):
    return expr.value
  if isinstance(expr, (ast.Name, ast.Attribute)):
    r = repo.resolve(scope, expr)
    if r.kind == 'local' and len(r.bindings) == 1 and r.bindings[0].value is not None:
      v = r.bindings[0].value
      if isinstance(v, ast.Constant) and isinstance(v.value, str):
        return v.value
  return None
