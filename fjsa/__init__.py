"""fjsa: a static analyser specific to google/fedjax (see /verif/DESIGN.md)."""
